package main

import (
	"fmt"
	"go/ast"
	"go/token"
	"go/types"
	"strings"

	"golang.org/x/tools/go/packages"
)

// L10 64-bit atomics are 64-bit aligned on 32-bit platforms (C20, C18, C14)
// P12 a parked wait listens to the request's context (C19, C09)
// P13 the long-poll protocol of the push plugin: nil ends the poll loop, a timeout returns an empty non-nil batch (C19)

func init() {
	register("L10", "every struct field passed by address to a 64-bit sync/atomic function (AddInt64, LoadUint64, CompareAndSwapInt64, ...) lies at an offset that is a multiple of 8 under the 32-bit size model (GOARCH=386/arm: int, uintptr and pointers take 4 bytes), in a struct that is itself allocated (first word of an allocation is 64-bit aligned) - otherwise the first such operation panics with 'unaligned 64-bit atomic operation' on those platforms", 4, ruleL10)
	register("P12", "a function that receives the request's context and parks on a channel it created itself (a select with a receive from a locally made channel, the responder of a long poll or a pending call) also waits, in that select, on Done() of the request context or of a context derived from it: a wait bounded by a bare timer is deaf to the cancellation of the request (dropped connection, timeout plugin), and the dead request's responder stays parked to swallow the next delivery", 4, ruleP12)
	register("P13", "the long-poll protocol between Broker.message and Prosumer.message: the broker's own time-out returns an empty NON-nil batch, nil being reserved for 'superseded by another poll / stop'; the prosumer's poll loop ends (on err == nil) only where the batch is compared equal to nil - ending on an empty batch stops polling after the first idle period, and messages published afterwards are accepted and never delivered", 2, ruleP13)
}

func ruleL10(r *Run) {
	p := r.P
	sizes32 := types.SizesFor("gc", "386")
	n := 0
	p.EachFunc(func(pkg *packages.Package, fd *ast.FuncDecl) {
		info := pkg.TypesInfo
		ast.Inspect(fd.Body, func(m ast.Node) bool {
			c, ok := m.(*ast.CallExpr)
			if !ok || len(c.Args) == 0 {
				return true
			}
			f := Callee(info, c)
			if f == nil || f.Pkg() == nil || f.Pkg().Path() != "sync/atomic" || !(strings.HasSuffix(f.Name(), "Int64") || strings.HasSuffix(f.Name(), "Uint64")) {
				return true
			}
			u, ok := ast.Unparen(c.Args[0]).(*ast.UnaryExpr)
			if !ok || u.Op != token.AND {
				return true
			}
			se, ok := ast.Unparen(u.X).(*ast.SelectorExpr)
			if !ok {
				return true
			}
			sel := info.Selections[se]
			if sel == nil || sel.Kind() != types.FieldVal {
				return true
			}
			fv := sel.Obj().(*types.Var)
			// offset of the field inside the outermost struct reached through the selection path
			t := sel.Recv()
			off := int64(0)
			okOff := true
			for _, idx := range sel.Index() {
				if pt, isP := t.Underlying().(*types.Pointer); isP {
					t = pt.Elem()
					off = 0 // a new allocation starts here
				}
				st, isS := t.Underlying().(*types.Struct)
				if !isS {
					okOff = false
					break
				}
				var fields []*types.Var
				for i := 0; i < st.NumFields(); i++ {
					fields = append(fields, st.Field(i))
				}
				offs := sizes32.Offsetsof(fields)
				off += offs[idx]
				t = st.Field(idx).Type()
			}
			n++
			key := fmt.Sprintf("64-bit atomic on field %s.%s", types.TypeString(sel.Recv(), types.RelativeTo(pkg.Types)), fv.Name())
			if !okOff {
				r.Undec(key, c.Pos(), "cannot compute the field offset")
				return true
			}
			r.Check(off%8 == 0, key, c.Pos(), fmt.Sprintf("offset %d under the 32-bit size model", off), fmt.Sprintf("field %s is at offset %d when int and pointers take 4 bytes (GOARCH=386, arm): sync/atomic.%s on it panics there with `unaligned 64-bit atomic operation` - move the 64-bit fields to the front of the struct", fv.Name(), off, f.Name()))
			return true
		})
	})
	if n == 0 {
		r.Undec("64-bit atomic operations on struct fields", 0, "none found")
	}
}

// ctxDerived: is e the context parameter ctxParam or a context derived from it through context.WithX(ctx, ..)?
func ctxDerived(info *types.Info, body ast.Node, e ast.Expr, ctxParams map[types.Object]bool, depth int) bool {
	o := identObj(info, e)
	if o == nil || depth > 4 {
		return false
	}
	if ctxParams[o] {
		return true
	}
	derived := false
	ast.Inspect(body, func(n ast.Node) bool {
		as, ok := n.(*ast.AssignStmt)
		if !ok || len(as.Rhs) != 1 {
			return true
		}
		for _, l := range as.Lhs {
			id, ok := l.(*ast.Ident)
			if !ok || info.ObjectOf(id) != o {
				continue
			}
			if c, ok := ast.Unparen(as.Rhs[0]).(*ast.CallExpr); ok && len(c.Args) >= 1 {
				if f := Callee(info, c); f != nil && f.Pkg() != nil && f.Pkg().Path() == "context" && strings.HasPrefix(f.Name(), "With") {
					if ctxDerived(info, body, c.Args[0], ctxParams, depth+1) {
						derived = true
					}
				}
			}
		}
		return true
	})
	return derived
}

func ruleP12(r *Run) {
	p := r.P
	n := 0
	p.EachFunc(func(pkg *packages.Package, fd *ast.FuncDecl) {
		if !strings.HasPrefix(p.RelPkg(pkg.Types), "rpc") {
			return
		}
		info := pkg.TypesInfo
		ctxParams := map[types.Object]bool{}
		for _, pv := range paramsOf(info, fd.Type) {
			if isNamed(pv.Type(), "context", "Context") {
				ctxParams[pv] = true
			}
		}
		if len(ctxParams) == 0 {
			return
		}
		// channels made in this function
		local := map[types.Object]bool{}
		ast.Inspect(fd.Body, func(m ast.Node) bool {
			as, ok := m.(*ast.AssignStmt)
			if !ok || len(as.Lhs) != len(as.Rhs) {
				return true
			}
			for i, rhs := range as.Rhs {
				if c, ok := ast.Unparen(rhs).(*ast.CallExpr); ok && IsBuiltin(info, c, "make") && len(c.Args) >= 1 {
					if _, isChan := info.TypeOf(c.Args[0]).Underlying().(*types.Chan); isChan {
						if id, ok := as.Lhs[i].(*ast.Ident); ok {
							if o := info.ObjectOf(id); o != nil {
								local[o] = true
							}
						}
					}
				}
			}
			return true
		})
		if len(local) == 0 {
			return
		}
		k := 0
		ast.Inspect(fd.Body, func(m ast.Node) bool {
			if _, isLit := m.(*ast.FuncLit); isLit {
				return false // a goroutine body has its own life time
			}
			sel, ok := m.(*ast.SelectStmt)
			if !ok {
				return true
			}
			parks, listens := false, false
			for _, cs := range sel.Body.List {
				cc := cs.(*ast.CommClause)
				var recv ast.Expr
				switch x := cc.Comm.(type) {
				case *ast.ExprStmt:
					if u, ok := ast.Unparen(x.X).(*ast.UnaryExpr); ok && u.Op == token.ARROW {
						recv = u.X
					}
				case *ast.AssignStmt:
					if len(x.Rhs) == 1 {
						if u, ok := ast.Unparen(x.Rhs[0]).(*ast.UnaryExpr); ok && u.Op == token.ARROW {
							recv = u.X
						}
					}
				}
				if recv == nil {
					continue
				}
				if o := identObj(info, recv); o != nil && local[o] {
					parks = true
				}
				if c, ok := ast.Unparen(recv).(*ast.CallExpr); ok && methodName(c) == "Done" {
					if se, ok := ast.Unparen(c.Fun).(*ast.SelectorExpr); ok && ctxDerived(info, fd.Body, se.X, ctxParams, 0) {
						listens = true
					}
				}
			}
			if !parks {
				return true
			}
			n++
			k++
			key := fmt.Sprintf("parked wait in %s #%d", p.DeclName(fd), k)
			r.Check(listens, key, sel.Pos(), "waits on the request context too", "the select parks on a channel this function created and published, but none of its cases is Done() of the request's context (or of a context derived from it): when the request is cancelled - connection dropped, timeout plugin, client abort - the function keeps waiting and its responder stays registered, so the next delivery is handed to a request nobody is waiting for and is lost")
			return true
		})
	})
	if n == 0 {
		r.Undec("parked waits", 0, "no select on a locally created channel in a function with a context parameter")
	}
}

func ruleP13(r *Run) {
	p := r.P
	bfd, bpkg := p.DeclOf("rpc/plugins/push", "Broker.message")
	pfd, ppkg := p.DeclOf("rpc/plugins/push", "Prosumer.message")
	if bfd == nil || pfd == nil {
		r.Undec("rpc/plugins/push Broker.message / Prosumer.message", 0, "not found")
		return
	}
	// broker: every batch Broker.message returns that it did not receive from the responder channel (its own
	// time-out answer) is non-nil
	{
		info := bpkg.TypesInfo
		k := 0
		fromChan := map[types.Object]bool{}
		isRecv := func(e ast.Expr) bool {
			u, ok := ast.Unparen(e).(*ast.UnaryExpr)
			return ok && u.Op == token.ARROW
		}
		ast.Inspect(bfd.Body, func(m ast.Node) bool {
			if as, ok := m.(*ast.AssignStmt); ok && len(as.Rhs) == 1 && isRecv(as.Rhs[0]) {
				for _, l := range as.Lhs {
					if id, ok := l.(*ast.Ident); ok {
						if o := info.ObjectOf(id); o != nil {
							fromChan[o] = true
						}
					}
				}
			}
			return true
		})
		ast.Inspect(bfd.Body, func(m ast.Node) bool {
			if _, isLit := m.(*ast.FuncLit); isLit {
				return false
			}
			rs, ok := m.(*ast.ReturnStmt)
			if !ok || len(rs.Results) != 1 {
				return true
			}
			res := ast.Unparen(rs.Results[0])
			if isRecv(res) {
				return true
			}
			if o := identObj(info, res); o != nil && fromChan[o] {
				return true
			}
			k++
			nonNil := false
			switch v := res.(type) {
			case *ast.CompositeLit:
				nonNil = true
			case *ast.CallExpr:
				nonNil = IsBuiltin(info, v, "make")
			case *ast.Ident:
				// a package-level empty batch
				if o, ok := info.Uses[v].(*types.Var); ok && o.Parent() == bpkg.Types.Scope() {
					nonNil = true
				}
			}
			r.Check(nonNil, fmt.Sprintf("batch returned by Broker.message on its own time-out #%d", k), rs.Pos(), "an empty non-nil batch", fmt.Sprintf("Broker.message answers a poll with `%s` of its own accord (not a batch received from the responder channel): nil is what it sends to a poll that was superseded, and the prosumer ends its poll loop on nil - after the first idle period the client would stop polling while staying subscribed", types.ExprString(res)))
			return true
		})
		if k == 0 {
			r.Undec("batch returned by Broker.message on its own time-out", bfd.Pos(), "no return of a batch that was not received from the responder found")
		}
	}
	// prosumer: inside the poll loop, a return on the success path is under `batch == nil`
	{
		info := ppkg.TypesInfo
		parents := parentMap(pfd.Body)
		var batch types.Object
		ast.Inspect(pfd.Body, func(m ast.Node) bool {
			if as, ok := m.(*ast.AssignStmt); ok && len(as.Lhs) == 2 && len(as.Rhs) == 1 {
				if c, ok := ast.Unparen(as.Rhs[0]).(*ast.CallExpr); ok && refName(methodName(c)) == "message" {
					batch = identObj(info, as.Lhs[0])
				}
			}
			return true
		})
		if batch == nil {
			r.Undec("end of the prosumer's poll loop", pfd.Pos(), "the poll call `topics, err := p.proxy.message()` was not found")
			return
		}
		k := 0
		ast.Inspect(pfd.Body, func(m ast.Node) bool {
			if _, isLit := m.(*ast.FuncLit); isLit {
				return false
			}
			rs, ok := m.(*ast.ReturnStmt)
			if !ok {
				return true
			}
			inLoop := false
			for x := parents[rs]; x != nil; x = parents[x] {
				if _, ok := x.(*ast.ForStmt); ok {
					inLoop = true
				}
			}
			if !inLoop {
				return true
			}
			// only exits that depend on the batch
			dependsOnBatch, nilTest := false, false
			for _, fc := range factsWithSwitch(parents, rs) {
				mentions := false
				ast.Inspect(fc.e, func(x ast.Node) bool {
					if id, ok := x.(*ast.Ident); ok && info.Uses[id] == batch {
						mentions = true
					}
					return true
				})
				if !mentions {
					continue
				}
				dependsOnBatch = true
				if be, ok := fc.e.(*ast.BinaryExpr); ok && identObj(info, be.X) == batch {
					if id, ok := ast.Unparen(be.Y).(*ast.Ident); ok && id.Name == "nil" && (be.Op == token.EQL && !fc.neg || be.Op == token.NEQ && fc.neg) {
						nilTest = true
					}
				}
			}
			if !dependsOnBatch {
				return true
			}
			k++
			r.Check(nilTest, fmt.Sprintf("end of the prosumer's poll loop #%d", k), rs.Pos(), "only on a nil batch", "Prosumer.message leaves its poll loop on a condition on the batch other than `== nil`: the broker answers a poll that merely timed out with an empty batch, so the client stops polling after the first idle period; it stays subscribed, publishes are accepted and cached, and nothing is ever delivered or reported")
			return true
		})
		if k == 0 {
			r.Undec("end of the prosumer's poll loop", pfd.Pos(), "no return that depends on the batch found inside the poll loop")
		}
	}
}

// ---- L11: a field that is accessed through sync/atomic anywhere is accessed through sync/atomic everywhere ----
// ---- G27: the parameter position a nil argument is boxed for is the slot it is stored in ----

func init() {
	register("L11", "a struct field whose address is passed to a sync/atomic function anywhere in the library is never read or written plainly elsewhere (outside the composite literal that builds the struct and the functions that construct it before publication): `atomic.AddInt64(&c.counter, 1); id := c.counter` lets two concurrent callers take the same value - duplicate request ids, lost updates", 8, ruleL11)
	register("G27", "where the services box an argument for a reflect call (in[X] = argumentValue(arg, ft, Y)), the parameter position Y the zero value is derived from is the slot X it is stored in (equal as linear expressions): a shifted position boxes an untyped nil as the zero value of the neighbouring parameter's type - the function silently receives \"\" or 0 where the caller passed nil", 2, ruleG27)
}

func ruleL11(r *Run) {
	p := r.P
	// pass 1: fields used atomically, and the selector nodes that are those atomic uses
	atomicField := map[*types.Var]string{}
	atomicUse := map[*ast.SelectorExpr]bool{}
	p.EachFunc(func(pkg *packages.Package, fd *ast.FuncDecl) {
		info := pkg.TypesInfo
		ast.Inspect(fd.Body, func(m ast.Node) bool {
			c, ok := m.(*ast.CallExpr)
			if !ok || len(c.Args) == 0 {
				return true
			}
			f := Callee(info, c)
			if f == nil || f.Pkg() == nil || f.Pkg().Path() != "sync/atomic" {
				return true
			}
			u, ok := ast.Unparen(c.Args[0]).(*ast.UnaryExpr)
			if !ok || u.Op != token.AND {
				return true
			}
			se, ok := ast.Unparen(u.X).(*ast.SelectorExpr)
			if !ok {
				return true
			}
			if fv := fieldOf(info, se); fv != nil && p.InRepo(fv) {
				atomicField[fv] = p.DeclName(fd)
				atomicUse[se] = true
			}
			return true
		})
	})
	if len(atomicField) == 0 {
		r.Undec("fields accessed through sync/atomic", 0, "none found")
		return
	}
	// pass 2: every other selection of such a field
	plain := map[*types.Var][]string{}
	p.EachFunc(func(pkg *packages.Package, fd *ast.FuncDecl) {
		info := pkg.TypesInfo
		// constructors: functions that return the struct (or a pointer to it) they build from a composite literal / new
		ast.Inspect(fd.Body, func(m ast.Node) bool {
			se, ok := m.(*ast.SelectorExpr)
			if !ok || atomicUse[se] {
				return true
			}
			fv := fieldOf(info, se)
			if fv == nil {
				return true
			}
			if _, isAtomic := atomicField[fv]; !isAtomic {
				return true
			}
			if p.constructsOwner(info, fd, se) {
				return true
			}
			plain[fv] = append(plain[fv], fmt.Sprintf("%s (%s)", p.DeclName(fd), p.Rel(se.Pos())))
			return true
		})
	})
	for fv, where := range atomicField {
		owner := ""
		if fv.Pkg() != nil {
			owner = p.RelPkg(fv.Pkg()) + "."
		}
		key := "atomic field " + owner + fieldOwnerName(p, fv) + fv.Name() + " is never accessed plainly"
		pl := plain[fv]
		r.Check(len(pl) == 0, key, fv.Pos(), "every access goes through sync/atomic (first seen in "+where+")", fmt.Sprintf("field %s is updated with sync/atomic in %s but read or written plainly in %s: the plain access races with the atomic one - two concurrent callers can observe the same value (duplicate ids), or an update is lost", fv.Name(), where, strings.Join(pl, ", ")))
	}
}

// fieldOwnerName: "Type." for the struct type that declares fv (best effort, for stable keys).
func fieldOwnerName(p *Prog, fv *types.Var) string {
	if fv.Pkg() == nil {
		return ""
	}
	sc := fv.Pkg().Scope()
	for _, name := range sc.Names() {
		tn, ok := sc.Lookup(name).(*types.TypeName)
		if !ok {
			continue
		}
		st, ok := tn.Type().Underlying().(*types.Struct)
		if !ok {
			continue
		}
		for i := 0; i < st.NumFields(); i++ {
			if st.Field(i) == fv {
				return name + "."
			}
		}
	}
	return ""
}

// constructsOwner: the selector's base is a local that was created in this function (composite literal,
// new, &T{}) - the value is not yet shared, plain initialisation is fine.
func (p *Prog) constructsOwner(info *types.Info, fd *ast.FuncDecl, se *ast.SelectorExpr) bool {
	o := identObj(info, se.X)
	if o == nil {
		return false
	}
	for _, pv := range paramsOf(info, fd.Type) {
		if pv == o {
			return false
		}
	}
	if fd.Recv != nil {
		for _, f := range fd.Recv.List {
			for _, n := range f.Names {
				if info.Defs[n] == o {
					return false
				}
			}
		}
	}
	fresh := false
	ast.Inspect(fd.Body, func(m ast.Node) bool {
		as, ok := m.(*ast.AssignStmt)
		if !ok || len(as.Lhs) != len(as.Rhs) {
			return true
		}
		for i, l := range as.Lhs {
			id, ok := l.(*ast.Ident)
			if !ok || info.ObjectOf(id) != o {
				continue
			}
			rhs := ast.Unparen(as.Rhs[i])
			if u, ok := rhs.(*ast.UnaryExpr); ok && u.Op == token.AND {
				rhs = ast.Unparen(u.X)
			}
			switch x := rhs.(type) {
			case *ast.CompositeLit:
				fresh = true
			case *ast.CallExpr:
				if IsBuiltin(info, x, "new") {
					fresh = true
				}
			}
		}
		return true
	})
	return fresh
}

func ruleG27(r *Run) {
	p := r.P
	n := 0
	p.EachFunc(func(pkg *packages.Package, fd *ast.FuncDecl) {
		if !strings.HasPrefix(p.RelPkg(pkg.Types), "rpc") {
			return
		}
		info := pkg.TypesInfo
		k := 0
		ast.Inspect(fd.Body, func(m ast.Node) bool {
			as, ok := m.(*ast.AssignStmt)
			if !ok || len(as.Lhs) != 1 || len(as.Rhs) != 1 {
				return true
			}
			c, ok := ast.Unparen(as.Rhs[0]).(*ast.CallExpr)
			if !ok || len(c.Args) != 3 {
				return true
			}
			f := Callee(info, c)
			if f == nil || !p.InRepo(f) || refName(f.Name()) != "argumentValue" {
				return true
			}
			ix, ok := ast.Unparen(as.Lhs[0]).(*ast.IndexExpr)
			if !ok {
				return true
			}
			n++
			k++
			slot, pos := linOfExpr(info, ix.Index), linOfExpr(info, c.Args[2])
			key := fmt.Sprintf("argument boxed for its own slot in %s #%d", p.DeclName(fd), k)
			r.Check(slot.sub(pos).isZero(), key, as.Pos(), "slot index = parameter position ("+slot.String()+")", fmt.Sprintf("the value is stored in slot %s of the argument list but boxed for parameter position %s: an untyped nil argument becomes the zero value of the wrong parameter's type (a nil passed for an interface{} parameter arrives as \"\" or 0), and a nil for the last fixed parameter of a variadic function is boxed as an element of the variadic", types.ExprString(ix.Index), types.ExprString(c.Args[2])))
			return true
		})
	})
	if n == 0 {
		r.Undec("argument boxing sites", 0, "no `in[X] = argumentValue(arg, ft, Y)` found")
	}
}
