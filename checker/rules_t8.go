package main

import (
	"fmt"
	"go/ast"
	"go/types"

	"golang.org/x/tools/go/packages"
)

// T8 scratch-slot freshness: a destination slot handed to a DecodeHandler inside a loop and then
// copied out in the same iteration must be allocated inside the iteration, because the repo's
// decoders only partially overwrite their destination (ptrDecoder reuses a non-nil pointee,
// structDecoder leaves absent fields untouched, arrayDecoder pads only from n).

func init() {
	register("T8", "a scratch slot that is filled by a DecodeHandler inside a loop and copied out in the same iteration (UnsafeSetIndex / UnsafeSet / append) is allocated inside that iteration, so one entry's value cannot leak into or alias the next", 4, ruleT8)
}

func ruleT8(r *Run) {
	p := r.P
	p.EachFunc(func(pkg *packages.Package, fd *ast.FuncDecl) {
		if pkg != p.Pkg("io") {
			return
		}
		info := pkg.TypesInfo
		fname := p.DeclName(fd)
		ast.Inspect(fd.Body, func(n ast.Node) bool {
			var body *ast.BlockStmt
			switch l := n.(type) {
			case *ast.ForStmt:
				body = l.Body
			case *ast.RangeStmt:
				body = l.Body
			default:
				return true
			}
			// slots filled by a DecodeHandler-typed call in this loop body
			filled := map[types.Object]*ast.CallExpr{}
			ast.Inspect(body, func(m ast.Node) bool {
				call, ok := m.(*ast.CallExpr)
				if !ok {
					return true
				}
				ft := info.TypeOf(call.Fun)
				if ft == nil || !p.namedIO(ft, "DecodeHandler") || len(call.Args) != 3 {
					return true
				}
				if o := identObj(info, call.Args[2]); o != nil {
					filled[o] = call
				}
				return true
			})
			for slot, dcall := range filled {
				// read back in the same body?
				var readBack *ast.CallExpr
				ast.Inspect(body, func(m ast.Node) bool {
					call, ok := m.(*ast.CallExpr)
					if !ok || call == dcall {
						return true
					}
					if ft := info.TypeOf(call.Fun); ft != nil && p.namedIO(ft, "DecodeHandler") {
						return true
					}
					for _, a := range call.Args {
						if identObj(info, a) == slot {
							readBack = call
						}
					}
					return true
				})
				key := fmt.Sprintf("scratch slot %s in %s", slot.Name(), fname)
				inside := slot.Pos() >= body.Pos() && slot.Pos() <= body.End()
				if readBack == nil {
					// written but never copied out (the surplus elements of a list longer than its array): the decoded values are
					// thrown away, but what the handler REGISTERED in the reference table is not - a pointer element decoded
					// into a shared slot re-uses the pointee, and a later reference to a surplus element resolves to the last one
					if _, isVar := slot.(*types.Var); !isVar || slot.Parent() == nil || isParamOrResult(info, fd, slot) {
						continue
					}
					if inside {
						r.Ok(key+" (discarded elements)", dcall.Pos(), "allocated inside the iteration")
					} else {
						r.Viol(key+" (discarded elements)", dcall.Pos(), fmt.Sprintf("slot %s is allocated once outside the loop and filled by a DecodeHandler for every surplus element: the values are discarded but the handler has registered them in the reference table - for pointer elements the pointee is re-used, so a back-reference to any surplus element resolves to the last one decoded", slot.Name()))
					}
					continue
				}
				if inside {
					r.Ok(key, dcall.Pos(), "allocated inside the iteration")
				} else {
					r.Viol(key, dcall.Pos(), fmt.Sprintf("slot %s is allocated once outside the loop, filled by a DecodeHandler and copied out by %s in every iteration: decoders only partially overwrite their destination, so entries alias or inherit parts of the previous entry (map[K]*T decodes to N pointers to one object)", slot.Name(), types.ExprString(readBack.Fun)))
				}
			}
			return true
		})
	})
}
