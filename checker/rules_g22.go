package main

import (
	"fmt"
	"go/ast"
	"go/token"
	"go/types"
	"strings"

	"golang.org/x/tools/go/packages"
)

// Rules added after the third seeding round (rpc side).
//   G22 the built-in bottom handlers are reached only through their chain (C15)
//   G23 a handler list is spread into a variadic handler parameter (C15)
//   G24 the rate limiter's invoke hook charges a positive constant (C17)

func init() {
	register("G22", "the built-in handler at the bottom of a plugin chain - the method value handed to NewIOManager / NewInvokeManager (Client.Transport, Client.Call, Service.Process, Service.Execute, Provider.Execute) - is referenced nowhere else in the library: every other caller enters through the head of the chain (Request, InvokeContext, Handle: manager.Handler()), otherwise the installed handlers are skipped for that caller and Use/Unuse have no effect on it", 5, ruleG22)
	register("G23", "a slice whose element type is the element type of a variadic empty-interface parameter (PluginHandler = interface{}) is passed in the variadic position only with the ellipsis: without it the whole list travels as ONE handler, which compiles, matches nothing in Unuse (the handler is never removed) and is rejected or ignored in Use", 8, ruleG23)
	register("G24", "RateLimiter.InvokeHandler charges every invocation a positive constant number of permits (one), independent of the call's arguments: a charge derived from the arguments admits argument-less methods free of charge and without limit; IOHandler charges the request length", 2, ruleG24)
}

func ruleG22(r *Run) {
	p := r.P
	// bottoms: method values passed to the manager constructors
	type bottom struct {
		f   *types.Func
		reg ast.Node
	}
	var bottoms []bottom
	regSite := map[ast.Node]bool{}
	p.EachFunc(func(pkg *packages.Package, fd *ast.FuncDecl) {
		info := pkg.TypesInfo
		ast.Inspect(fd.Body, func(n ast.Node) bool {
			c, ok := n.(*ast.CallExpr)
			if !ok || len(c.Args) != 1 {
				return true
			}
			f := Callee(info, c)
			if f == nil || !p.InRepo(f) {
				return true
			}
			switch refName(f.Name()) {
			case "NewIOManager", "NewInvokeManager":
			default:
				return true
			}
			if se, ok := ast.Unparen(c.Args[0]).(*ast.SelectorExpr); ok {
				if m, ok := info.Uses[se.Sel].(*types.Func); ok {
					bottoms = append(bottoms, bottom{m.Origin(), se})
					regSite[se.Sel] = true
				}
			}
			return true
		})
	})
	if len(bottoms) == 0 {
		r.Undec("bottom handlers", 0, "no method value passed to NewIOManager/NewInvokeManager found")
		return
	}
	isBottom := map[*types.Func]bool{}
	for _, b := range bottoms {
		isBottom[b.f] = true
	}
	uses := map[*types.Func][]string{}
	p.EachFunc(func(pkg *packages.Package, fd *ast.FuncDecl) {
		info := pkg.TypesInfo
		ast.Inspect(fd.Body, func(n ast.Node) bool {
			id, ok := n.(*ast.Ident)
			if !ok || regSite[id] {
				return true
			}
			if f, ok := info.Uses[id].(*types.Func); ok && isBottom[f.Origin()] {
				uses[f.Origin()] = append(uses[f.Origin()], fmt.Sprintf("%s (%s)", p.DeclName(fd), p.Rel(id.Pos())))
			}
			return true
		})
	})
	seen := map[*types.Func]bool{}
	for _, b := range bottoms {
		if seen[b.f] {
			continue
		}
		seen[b.f] = true
		key := "bottom handler " + p.FuncName(b.f) + " is reached only through its chain"
		u := uses[b.f]
		r.Check(len(u) == 0, key, b.reg.Pos(), "referenced only where it is installed as the default handler", fmt.Sprintf("%s is the built-in bottom of a plugin chain but is also used directly in %s: that caller skips every handler installed with Use (and a handler that should short-circuit or rewrite the call is never asked), where the chain's head (Request / InvokeContext / Handle) would run them", p.FuncName(b.f), strings.Join(u, ", ")))
	}
}

func ruleG23(r *Run) {
	p := r.P
	n := 0
	p.EachFunc(func(pkg *packages.Package, fd *ast.FuncDecl) {
		if !strings.HasPrefix(p.RelPkg(pkg.Types), "rpc") {
			return
		}
		info := pkg.TypesInfo
		k := 0
		ast.Inspect(fd.Body, func(m ast.Node) bool {
			c, ok := m.(*ast.CallExpr)
			if !ok {
				return true
			}
			// only functions and interface methods of the library itself: printing a list with fmt/log is intended
			var callee types.Object = Callee(info, c)
			if callee == (*types.Func)(nil) || callee == nil {
				callee = nil
				if se, ok := ast.Unparen(c.Fun).(*ast.SelectorExpr); ok {
					if sel := info.Selections[se]; sel != nil {
						callee = sel.Obj() // interface method (PluginManager.Use)
					}
				}
			}
			if callee == nil || !p.InRepo(callee) {
				return true
			}
			tv, ok := info.Types[c.Fun]
			if !ok || tv.IsType() {
				return true
			}
			sig, ok := tv.Type.Underlying().(*types.Signature)
			if !ok || !sig.Variadic() {
				return true
			}
			np := sig.Params().Len()
			vt := sig.Params().At(np - 1).Type().(*types.Slice).Elem()
			it, ok := vt.Underlying().(*types.Interface)
			if !ok || !it.Empty() {
				return true
			}
			// a plain ...interface{} of a printer takes a list as one value on purpose; a list of the parameter's own
			// slice type (same named element type, or the caller's own variadic parameter forwarded) is meant to be spread
			_, named := vt.(*types.Named)
			for i := np - 1; i < len(c.Args); i++ {
				at := info.TypeOf(c.Args[i])
				if at == nil {
					continue
				}
				st, ok := at.Underlying().(*types.Slice)
				if !ok || !types.Identical(st.Elem(), vt) {
					continue
				}
				if !named {
					// ...interface{}: only the caller's own variadic parameter forwarded is a list meant to be spread
					fwd := false
					if o := identObj(info, c.Args[i]); o != nil {
						if fsig, ok := info.Defs[fd.Name].Type().(*types.Signature); ok && fsig.Variadic() && fsig.Params().At(fsig.Params().Len()-1) == o {
							fwd = true
						}
					}
					if !fwd {
						continue
					}
				}
				n++
				k++
				key := fmt.Sprintf("list passed to variadic %s in %s #%d", types.ExprString(c.Fun), p.DeclName(fd), k)
				spread := c.Ellipsis.IsValid() && i == len(c.Args)-1
				r.Check(spread, key, c.Args[i].Pos(), "spread with ...", fmt.Sprintf("`%s` passes the list %s as a single element of the variadic parameter (the element type is an empty interface, so it compiles): the callee sees one value that is a slice, not the handlers in it - Unuse matches nothing and the handlers stay installed, Use rejects or ignores it", types.ExprString(c), types.ExprString(c.Args[i])))
			}
			return true
		})
	})
	if n == 0 {
		r.Undec("lists passed to variadic interface parameters", 0, "none found")
	}
}

func ruleG24(r *Run) {
	p := r.P
	pkg := p.Pkg("rpc/plugins/limiter")
	acq := p.LookupFunc("rpc/plugins/limiter", "RateLimiter.Acquire")
	if pkg == nil || acq == nil {
		r.Undec("rpc/plugins/limiter.RateLimiter.Acquire", 0, "not found")
		return
	}
	info := pkg.TypesInfo
	n := 0
	for _, file := range pkg.Syntax {
		for _, d := range file.Decls {
			fd, ok := d.(*ast.FuncDecl)
			if !ok || fd.Body == nil {
				continue
			}
			params := paramsOf(info, fd.Type)
			// which hook: the []byte request of an IO handler or the args list of an invoke handler
			var bytesParam, argsParam types.Object
			for _, pv := range params {
				if sl, ok := pv.Type().Underlying().(*types.Slice); ok {
					if b, ok := sl.Elem().Underlying().(*types.Basic); ok && b.Kind() == types.Uint8 {
						bytesParam = pv
					} else if it, ok := sl.Elem().Underlying().(*types.Interface); ok && it.Empty() {
						argsParam = pv
					}
				}
			}
			k := 0
			ast.Inspect(fd.Body, func(m ast.Node) bool {
				c, ok := m.(*ast.CallExpr)
				if !ok || Callee(info, c) != acq || len(c.Args) != 2 {
					return true
				}
				n++
				k++
				key := fmt.Sprintf("permits charged by %s #%d", p.DeclName(fd), k)
				arg := ast.Unparen(c.Args[1])
				switch {
				case argsParam != nil:
					v, isConst := intConst(info, arg)
					r.Check(isConst && v > 0, key, arg.Pos(), "a positive constant per invocation", fmt.Sprintf("an invocation is charged `%s` permits: the charge must not depend on the call - with len(args) a method without arguments costs nothing and is admitted at any rate, and a many-argument call is throttled harder than configured", types.ExprString(arg)))
				case bytesParam != nil:
					okLen := false
					if lc, ok := arg.(*ast.CallExpr); ok && IsBuiltin(info, lc, "len") && len(lc.Args) == 1 && identObj(info, lc.Args[0]) == bytesParam {
						okLen = true
					}
					r.Check(okLen, key, arg.Pos(), "the request length", fmt.Sprintf("a request is charged `%s` instead of its length in bytes: the byte-rate limit is not enforced", types.ExprString(arg)))
				default:
					r.Ok(key, arg.Pos(), "not a handler hook")
				}
				return true
			})
		}
	}
	if n == 0 {
		r.Undec("permits charged by the rate limiter hooks", 0, "no call of RateLimiter.Acquire found in the package")
	}
}

// ---- G25: ClientContext.URL is an element of a configured list (identity) ----
// ---- G26: an explicit retry budget of 0 is kept ----

func init() {
	register("G25", "ClientContext.URL always points AT an element of a configured server list (urls[i], lb.URLs[i], a local defined from one, another context's URL): the plugins recognise a server by pointer identity (failover's test that the next server is not the one that just failed compares *url.URL pointers), so a per-call copy of a list element matches nothing and failover can choose the failed server again", 8, ruleG25)
	register("G26", "an explicitly configured retry budget is replaced by the default only when it is negative: every assignment of a constant to the Retry field in the cluster package that depends on Retry at all is under a condition that Retry == 0 does not satisfy (0 means: never retry; `<= 0` would turn it into ten retries)", 1, ruleG26)
}

func ruleG25(r *Run) {
	p := r.P
	urlF := p.LookupField("rpc/core", "ClientContext", "URL")
	if urlF == nil {
		r.Undec("rpc/core.ClientContext.URL", 0, "field not found")
		return
	}
	isURLList := func(t types.Type) bool {
		if t == nil {
			return false
		}
		sl, ok := t.Underlying().(*types.Slice)
		if !ok {
			return false
		}
		pt, ok := sl.Elem().Underlying().(*types.Pointer)
		return ok && isNamed(pt.Elem(), "net/url", "URL")
	}
	n := 0
	p.EachFunc(func(pkg *packages.Package, fd *ast.FuncDecl) {
		info := pkg.TypesInfo
		defs := localDefs(info, fd.Body)
		var element func(e ast.Expr, depth int) bool
		element = func(e ast.Expr, depth int) bool {
			e = ast.Unparen(e)
			if depth > 3 {
				return false
			}
			switch x := e.(type) {
			case *ast.IndexExpr:
				return isURLList(info.TypeOf(x.X))
			case *ast.SelectorExpr:
				return fieldOf(info, x) == urlF
			case *ast.Ident:
				o := info.Uses[x]
				if o == nil {
					return false
				}
				if d, ok := defs[o]; ok && d != nil {
					return element(d, depth+1)
				}
				// the value variable of a range over a server list
				isRangeVal := false
				ast.Inspect(fd.Body, func(m ast.Node) bool {
					if rs, isR := m.(*ast.RangeStmt); isR && rs.Value != nil {
						if id, isID := rs.Value.(*ast.Ident); isID && info.ObjectOf(id) == o && isURLList(info.TypeOf(rs.X)) {
							isRangeVal = true
						}
					}
					return true
				})
				if isRangeVal {
					return true
				}
				// a variable assigned more than once: every assignment must be an element
				okAll, any := true, false
				ast.Inspect(fd.Body, func(m ast.Node) bool {
					as, isAs := m.(*ast.AssignStmt)
					if !isAs || len(as.Lhs) != len(as.Rhs) {
						return true
					}
					for i, l := range as.Lhs {
						if id, isID := l.(*ast.Ident); isID && info.ObjectOf(id) == o {
							any = true
							if !element(as.Rhs[i], depth+1) {
								okAll = false
							}
						}
					}
					return true
				})
				return any && okAll
			}
			return false
		}
		k := 0
		ast.Inspect(fd.Body, func(m ast.Node) bool {
			as, ok := m.(*ast.AssignStmt)
			if !ok || len(as.Lhs) != len(as.Rhs) {
				return true
			}
			for i, l := range as.Lhs {
				if fieldOf(info, l) != urlF {
					continue
				}
				n++
				k++
				key := fmt.Sprintf("server assigned to the call in %s #%d", p.DeclName(fd), k)
				r.Check(element(as.Rhs[i], 0), key, as.Pos(), "an element of a configured list", fmt.Sprintf("ClientContext.URL is set to `%s`, which is not an element of a configured server list (a copy, a freshly built URL): servers are recognised by pointer identity - failover's `next == clientContext.URL` never matches such a value, so when the shared rotation index comes round it re-sends the call to the server that has just failed", types.ExprString(as.Rhs[i])))
			}
			return true
		})
	})
	if n == 0 {
		r.Undec("assignments to ClientContext.URL", 0, "none found")
	}
}

func ruleG26(r *Run) {
	p := r.P
	pkg := p.Pkg("rpc/plugins/cluster")
	if pkg == nil {
		r.Undec("package rpc/plugins/cluster", 0, "not found")
		return
	}
	info := pkg.TypesInfo
	n := 0
	for _, file := range pkg.Syntax {
		for _, d := range file.Decls {
			fd, ok := d.(*ast.FuncDecl)
			if !ok || fd.Body == nil {
				continue
			}
			parents := parentMap(fd.Body)
			k := 0
			ast.Inspect(fd.Body, func(m ast.Node) bool {
				as, ok := m.(*ast.AssignStmt)
				if !ok || len(as.Lhs) != 1 || len(as.Rhs) != 1 {
					return true
				}
				fv := fieldOf(info, as.Lhs[0])
				if fv == nil || refName(fv.Name()) != "Retry" {
					return true
				}
				if _, isConst := intConst(info, as.Rhs[0]); !isConst {
					return true
				}
				// conditions on Retry that guard the defaulting
				depends, zeroExcluded := false, false
				for _, fc := range factsWithSwitch(parents, as) {
					be, ok := fc.e.(*ast.BinaryExpr)
					if !ok || fieldOf(info, be.X) != fv {
						continue
					}
					c, ok := intConst(info, be.Y)
					if !ok {
						continue
					}
					depends = true
					var holds bool // does Retry == 0 satisfy the comparison?
					switch be.Op {
					case token.LSS:
						holds = 0 < c
					case token.LEQ:
						holds = 0 <= c
					case token.GTR:
						holds = 0 > c
					case token.GEQ:
						holds = 0 >= c
					case token.EQL:
						holds = 0 == c
					case token.NEQ:
						holds = 0 != c
					default:
						continue
					}
					if fc.neg {
						holds = !holds
					}
					if !holds {
						zeroExcluded = true
					}
				}
				if !depends {
					return true
				}
				n++
				k++
				r.Check(zeroExcluded, fmt.Sprintf("default retry budget in %s #%d", p.DeclName(fd), k), as.Pos(), "only for a negative budget", "the default budget replaces an explicit Retry of 0 as well: a call configured never to be retried (WithRetry(0), a hand-written Config) is attempted eleven times")
				return true
			})
		}
	}
	if n == 0 {
		r.Undec("default retry budget", 0, "no conditional defaulting of the Retry field found in rpc/plugins/cluster")
	}
}
