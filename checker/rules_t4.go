package main

import (
	"fmt"
	"go/ast"
	"go/token"
	"go/types"
	"sort"
	"strings"

	"golang.org/x/tools/go/packages"
)

// T4 sibling monotonicity, T5 default-clause error discipline, plus the shared
// machinery that extracts ACCEPT sets from the decoder's tag switches.

func init() {
	register("T4", "within a width-ordered family of scalar decode routines every wire tag accepted for the narrower type is accepted for the wider one", 14, ruleT4)
	register("T5", "every switch over a wire tag ends in a default clause that reports an error or delegates the same tag (no silent fall-through that leaves the destination untouched)", 30, ruleT5)
}

// isTagConst: a constant named Tag* declared in package io.
func (p *Prog) isTagConst(c *types.Const) bool {
	return c != nil && c.Pkg() != nil && c.Pkg().Path() == p.ModPath+"/io" && strings.HasPrefix(c.Name(), "Tag")
}

type tagSwitch struct {
	pkg     *packages.Package
	fd      *ast.FuncDecl
	fn      string
	sw      *ast.SwitchStmt
	tagObj  types.Object // variable switched on
	cases   map[string]*ast.CaseClause
	deflt   *ast.CaseClause
	isParam bool
}

// tagSwitches finds every `switch x { case TagA, TagB: ... }` in the repo.
func (p *Prog) tagSwitches() []*tagSwitch {
	var out []*tagSwitch
	p.EachFunc(func(pkg *packages.Package, fd *ast.FuncDecl) {
		info := pkg.TypesInfo
		params := paramsOf(info, fd.Type)
		ast.Inspect(fd.Body, func(n ast.Node) bool {
			sw, ok := n.(*ast.SwitchStmt)
			if !ok || sw.Tag == nil {
				return true
			}
			ts := &tagSwitch{pkg: pkg, fd: fd, fn: p.DeclName(fd), sw: sw, cases: map[string]*ast.CaseClause{}}
			hasTag := false
			for _, st := range sw.Body.List {
				cc := st.(*ast.CaseClause)
				if cc.List == nil {
					ts.deflt = cc
				}
				for _, e := range cc.List {
					if c := constOf(info, e); p.isTagConst(c) {
						hasTag = true
						ts.cases[c.Name()] = cc
					}
				}
			}
			if !hasTag {
				return true
			}
			if id, ok := ast.Unparen(sw.Tag).(*ast.Ident); ok {
				ts.tagObj = info.Uses[id]
				for _, pv := range params {
					if pv != nil && pv == ts.tagObj {
						ts.isParam = true
					}
				}
			}
			out = append(out, ts)
			return true
		})
	})
	return out
}

// acceptInfo is the set of head tags a decode routine takes as a value of its type.
type acceptInfo struct {
	fn       *types.Func
	tags     map[string]bool // Tag* names, plus "DIGIT"
	delegate []*types.Func   // same-tag delegates whose ACCEPT is included
	pos      token.Pos
}

// tagParamOf returns the `tag byte` parameter of a function declaration, if it has one.
func tagParamOf(info *types.Info, ft *ast.FuncType) *types.Var {
	for _, v := range paramsOf(info, ft) {
		if v != nil && v.Name() == "tag" {
			if b, ok := v.Type().Underlying().(*types.Basic); ok && b.Kind() == types.Uint8 {
				return v
			}
		}
	}
	return nil
}

// acceptSets computes ACCEPT for every repo function with a `tag byte` parameter.
func (p *Prog) acceptSets() map[*types.Func]*acceptInfo {
	out := map[*types.Func]*acceptInfo{}
	digits := p.LookupObj("io", "intDigits")
	p.EachFunc(func(pkg *packages.Package, fd *ast.FuncDecl) {
		info := pkg.TypesInfo
		tag := tagParamOf(info, fd.Type)
		if tag == nil {
			return
		}
		fobj, _ := info.Defs[fd.Name].(*types.Func)
		ai := &acceptInfo{fn: fobj, tags: map[string]bool{}, pos: fd.Pos()}
		isTag := func(e ast.Expr) bool {
			id, ok := ast.Unparen(e).(*ast.Ident)
			return ok && info.Uses[id] == tag
		}
		ast.Inspect(fd.Body, func(n ast.Node) bool {
			switch x := n.(type) {
			case *ast.SwitchStmt:
				if x.Tag != nil && isTag(x.Tag) {
					for _, st := range x.Body.List {
						cc := st.(*ast.CaseClause)
						for _, e := range cc.List {
							if c := constOf(info, e); p.isTagConst(c) {
								ai.tags[c.Name()] = true
							}
						}
					}
				}
			case *ast.BinaryExpr:
				if x.Op == token.EQL {
					for _, pr := range [][2]ast.Expr{{x.X, x.Y}, {x.Y, x.X}} {
						if isTag(pr[0]) {
							if c := constOf(info, pr[1]); p.isTagConst(c) {
								ai.tags[c.Name()] = true
							}
						}
					}
				}
			case *ast.IndexExpr:
				if digits != nil && objOf(info, x.X) == digits && isTag(x.Index) {
					ai.tags["DIGIT"] = true
				}
			case *ast.CallExpr:
				// same-tag delegation: a call that passes the tag parameter on
				passes := false
				for _, a := range x.Args {
					if isTag(a) {
						passes = true
					}
				}
				if passes {
					if f := Callee(info, x); f != nil && p.InRepo(f) && f != fobj {
						ai.delegate = append(ai.delegate, f)
					}
				}
			}
			return true
		})
		out[fobj] = ai
	})
	return out
}

// closure of ACCEPT through same-tag delegates
func acceptClosure(sets map[*types.Func]*acceptInfo, f *types.Func, seen map[*types.Func]bool) map[string]bool {
	res := map[string]bool{}
	ai := sets[f]
	if ai == nil || seen[f] {
		return res
	}
	// decodeError is the error sink: it decodes the value only to name its type in the CastError.
	if f.Name() == "decodeError" {
		return res
	}
	seen[f] = true
	for t := range ai.tags {
		res[t] = true
	}
	for _, d := range ai.delegate {
		for t := range acceptClosure(sets, d, seen) {
			res[t] = true
		}
	}
	return res
}

func setString(m map[string]bool) string {
	var s []string
	for k := range m {
		s = append(s, strings.TrimPrefix(k, "Tag"))
	}
	sort.Strings(s)
	return strings.Join(s, ",")
}

// width-ordered families: narrow -> wide edges (names of *Decoder methods)
var t4Edges = [][2]string{
	{"decodeInt8", "decodeInt16"}, {"decodeInt16", "decodeInt32"}, {"decodeInt32", "decodeInt64"},
	{"decodeInt32", "decodeInt"}, {"decodeInt", "decodeInt64"},
	{"decodeUint8", "decodeUint16"}, {"decodeUint16", "decodeUint32"}, {"decodeUint32", "decodeUint64"},
	{"decodeUint32", "decodeUint"}, {"decodeUint", "decodeUint64"}, {"decodeUint32", "decodeUintptr"}, {"decodeUintptr", "decodeUint64"},
	{"decodeFloat32", "decodeFloat64"},
	{"decodeComplex64", "decodeComplex128"},
	// integers are representable in floats and floats in complex numbers (tags only; values are not decided)
	{"decodeInt64", "decodeFloat64"}, {"decodeUint64", "decodeFloat64"},
	{"decodeFloat32", "decodeComplex64"}, {"decodeFloat64", "decodeComplex128"},
}

func ruleT4(r *Run) {
	p := r.P
	sets := p.acceptSets()
	for _, e := range t4Edges {
		nf, wf := p.LookupFunc("io", "Decoder."+e[0]), p.LookupFunc("io", "Decoder."+e[1])
		key := fmt.Sprintf("ACCEPT(%s) subset-of ACCEPT(%s)", e[0], e[1])
		if nf == nil || wf == nil || sets[nf] == nil || sets[wf] == nil {
			r.Undec(key, 0, "decode routine not found (renamed?)")
			continue
		}
		na := acceptClosure(sets, nf, map[*types.Func]bool{})
		wa := acceptClosure(sets, wf, map[*types.Func]bool{})
		var missing []string
		for t := range na {
			if !wa[t] {
				missing = append(missing, t)
			}
		}
		sort.Strings(missing)
		if len(missing) == 0 {
			r.Ok(key, sets[wf].pos, fmt.Sprintf("narrow {%s} wide {%s}", setString(na), setString(wa)))
		} else {
			r.Viol(key, sets[wf].pos, fmt.Sprintf("%s takes %s as a value but %s does not: a token a narrower destination accepts is rejected by the wider one", e[0], strings.Join(missing, ","), e[1]))
		}
	}
}

// errorReaching: does a statement list contain (syntactically, on some path) an error report
// or a same-tag delegation?  Used for default clauses, which in this code base are one-liners.
func (p *Prog) reportsOrDelegates(info *types.Info, stmts []ast.Stmt, tagObj types.Object) (bool, string) {
	found, how := false, ""
	for _, s := range stmts {
		ast.Inspect(s, func(n ast.Node) bool {
			switch x := n.(type) {
			case *ast.CallExpr:
				if f := Callee(info, x); f != nil {
					switch p.FuncName(f) {
					case "io.Decoder.defaultDecode", "io.Decoder.decodeError", "io.Decoder.decodeStringError":
						found, how = true, f.Name()
						return false
					}
				}
				if IsBuiltin(info, x, "panic") {
					found, how = true, "panic"
				}
				for _, a := range x.Args {
					if id, ok := ast.Unparen(a).(*ast.Ident); ok && tagObj != nil && info.Uses[id] == tagObj {
						found, how = true, "delegates tag"
					}
				}
			case *ast.AssignStmt:
				for _, l := range x.Lhs {
					if fv := fieldOf(info, l); fv != nil && fv.Name() == "Error" {
						found, how = true, "sets Error"
					}
					if id, ok := l.(*ast.Ident); ok {
						if v, ok := objOf(info, id).(*types.Var); ok && v.Name() == "err" || ok && types.Identical(v.Type(), types.Universe.Lookup("error").Type()) {
							found, how = true, "sets error result"
						}
					}
				}
			case *ast.ReturnStmt:
				for _, res := range x.Results {
					if t := info.TypeOf(res); t != nil && types.Identical(t, types.Universe.Lookup("error").Type()) {
						if id, ok := res.(*ast.Ident); !ok || id.Name != "nil" {
							found, how = true, "returns error"
						}
					}
				}
			}
			return true
		})
	}
	return found, how
}

func ruleT5(r *Run) {
	p := r.P
	perFn := map[string]int{}
	for _, ts := range p.tagSwitches() {
		info := ts.pkg.TypesInfo
		perFn[ts.fn]++
		key := fmt.Sprintf("tag switch %s #%d {%s}", ts.fn, perFn[ts.fn], func() string {
			m := map[string]bool{}
			for k := range ts.cases {
				m[k] = true
			}
			return setString(m)
		}())
		if ts.deflt == nil {
			// a switch without default is acceptable only if the code after it cannot be reached
			// with an unhandled tag without an error: the statement following the switch reports.
			if ok, how := p.followedByReport(ts); ok {
				r.Ok(key, ts.sw.Pos(), "no default; falls through to "+how)
			} else {
				r.Viol(key, ts.sw.Pos(), "switch over a wire tag has no default clause: an unexpected tag leaves the destination untouched and reports no error")
			}
			continue
		}
		if ok, how := p.reportsOrDelegates(info, ts.deflt.Body, ts.tagObj); ok {
			r.Ok(key, ts.deflt.Pos(), "default "+how)
		} else if ok, how := p.followedByReport(ts); ok && !endsInReturn(ts.deflt.Body) {
			r.Ok(key, ts.deflt.Pos(), "default falls through to "+how)
		} else {
			r.Viol(key, ts.deflt.Pos(), "default clause of a wire-tag switch neither reports an error nor delegates the tag")
		}
	}
}

// followedByReport: the switch is followed (in its enclosing block) by statements that report.
func (p *Prog) followedByReport(ts *tagSwitch) (bool, string) {
	info := ts.pkg.TypesInfo
	parents := parentMap(ts.fd)
	blk, ok := parents[ts.sw].(*ast.BlockStmt)
	if !ok {
		return false, ""
	}
	// tags not handled by a clause reach the statements after the switch
	for i, s := range blk.List {
		if s == ts.sw {
			return p.reportsOrDelegates(info, blk.List[i+1:], ts.tagObj)
		}
	}
	return false, ""
}

func endsInReturn(body []ast.Stmt) bool {
	if len(body) == 0 {
		return false
	}
	_, ok := body[len(body)-1].(*ast.ReturnStmt)
	return ok
}
