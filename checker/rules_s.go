package main

import (
	"fmt"
	"go/ast"
	"go/token"
	"go/types"
	"golang.org/x/tools/go/packages"
	"sort"
	"strings"
)

// S1 limit dominance, S2 exact-length reads, S3 datagram bodies bounded by bytes received,
// S4 header integrity (make/parse agreement), S5 too-large signalling constants.

func init() {
	register("S1", "on every transport every path to the dispatch of a request passes a comparison of a SOUND length of the dispatched bytes (len of them, or the size they were allocated and exactly filled with) against Service.MaxRequestLength, and the too-large edge cannot reach the dispatch", 6, ruleS1)
	register("S2", "stream reads of frame headers and bodies are exact-length: io.ReadAtLeast/ReadFull read len(buffer) bytes into a buffer allocated with the declared length", 5, ruleS2)
	register("S3", "a datagram's body is taken only from the bytes actually received: the declared length is compared with the count returned by the read and the copy out of the reused buffer is bounded", 4, ruleS3)
	register("S4", "makeHeader and parseHeader of each transport place index, length and checksum at the same byte positions with the same shifts and checksum the same sub-slice; parseHeader's failure result is tested before length/index are used", 9, ruleS4)
	register("S6", "a payload copied into a fixed-size datagram buffer is checked against the buffer's capacity first (copy silently truncates): the length declared in the header always equals the bytes actually sent", 2, ruleS6)
	register("S5", "the too-large condition is signalled and recognised with the same constants on both sides (core.RequestEntityTooLarge marker / ErrRequestEntityTooLarge / HTTP 413)", 6, ruleS5)
}

// ---------------------------------------------------------------------------------------
// S1

var s1Entries = []struct{ pkg, fn string }{
	{"rpc/http", "Handler.ServeHTTP"}, {"rpc/http", "Handler.ServeFastHTTP"},
	{"rpc/socket", "Handler.receive"}, {"rpc/udp", "Handler.receive"}, {"rpc/websocket", "Handler.receive"},
	{"rpc/mock", "Handler.Handler"},
}

type s1State struct{ within, tooLarge bool }

func (s *s1State) Key() string  { return fmt.Sprintf("%v|%v", s.within, s.tooLarge) }
func (s *s1State) Copy() PState { n := *s; return &n }

func stripConv(info *types.Info, e ast.Expr) ast.Expr {
	for {
		e = ast.Unparen(e)
		if c, ok := e.(*ast.CallExpr); ok {
			if _, isConv := isConversion(info, c); isConv {
				e = c.Args[0]
				continue
			}
		}
		return e
	}
}

func isMaxReqLen(info *types.Info, e ast.Expr) bool {
	e = stripConv(info, e)
	fv := fieldOf(info, e)
	return fv != nil && fv.Name() == "MaxRequestLength"
}

func ruleS1(r *Run) {
	p := r.P
	// entries: every function of a transport package that hands received bytes (not its own
	// parameter) to the service, directly or through a forwarder (dispatchSet in rules_g.go). On the
	// reference tree these are the six functions of s1Entries.
	type s1Entry struct {
		pkg string
		fd  *ast.FuncDecl
	}
	var entries []s1Entry
	seenPkg := map[string]bool{}
	dsets := map[string]*dispatchSet{}
	for _, en := range s1Entries {
		if seenPkg[en.pkg] {
			continue
		}
		seenPkg[en.pkg] = true
		ds := p.dispatchSetOf(en.pkg)
		if ds == nil {
			r.Undec("limit before dispatch "+en.pkg, 0, "package not found")
			continue
		}
		dsets[en.pkg] = ds
		for _, fd := range ds.entries {
			entries = append(entries, s1Entry{en.pkg, fd})
		}
	}
	for _, en := range entries {
		fd := en.fd
		pkg := p.Pkg(en.pkg)
		key := "limit before dispatch " + p.DeclName(fd)
		info := pkg.TypesInfo
		defs := localDefs(info, fd.Body)
		// dispatch calls and their bytes argument
		isDispatch := func(call *ast.CallExpr) (types.Object, bool) {
			f := Callee(info, call)
			if f == nil || !p.InRepo(f) {
				return nil, false
			}
			if ds := dsets[en.pkg]; ds == nil || !ds.targets[f] {
				return nil, false
			}
			for i := len(call.Args) - 1; i >= 0; i-- {
				if t := info.TypeOf(call.Args[i]); t != nil {
					if sl, ok := t.Underlying().(*types.Slice); ok {
						if b, ok := sl.Elem().Underlying().(*types.Basic); ok && b.Kind() == types.Uint8 {
							return identObj(info, call.Args[i]), true
						}
					}
				}
			}
			return nil, true
		}
		var bytesObj types.Object
		nDispatch := 0
		ast.Inspect(fd.Body, func(n ast.Node) bool {
			if call, ok := n.(*ast.CallExpr); ok {
				if o, ok := isDispatch(call); ok {
					nDispatch++
					if o != nil {
						bytesObj = o
					}
				}
			}
			return true
		})
		if nDispatch == 0 || bytesObj == nil {
			r.Undec(key, fd.Pos(), "dispatch call or its request bytes not found")
			continue
		}
		// sound lengths of the dispatched bytes
		soundLenOf := map[types.Object]bool{bytesObj: true} // len(X) for X in this set
		soundIdent := map[types.Object]bool{}               // identifiers equal to the length
		if d, ok := defs[bytesObj]; ok && d != nil {
			if call, ok := ast.Unparen(d).(*ast.CallExpr); ok && IsBuiltin(info, call, "make") && len(call.Args) >= 2 {
				l := stripConv(info, call.Args[1])
				if o := identObj(info, l); o != nil {
					soundIdent[o] = true
				}
				if lc, ok := l.(*ast.CallExpr); ok && IsBuiltin(info, lc, "len") {
					if o := identObj(info, lc.Args[0]); o != nil {
						soundLenOf[o] = true // request := make([]byte, len(body)); copy(request, body)
					}
				}
			}
		}
		// a new frame starts where the root of the length information is (re)defined: the
		// declared-length identifier, or the byte slice whose len() is compared. A buffer that
		// is merely allocated from an already sound length (make([]byte, length) / make(.., len(body)))
		// is not a root.
		resetRoot := map[types.Object]bool{}
		madeFromSound := false
		if d, ok := defs[bytesObj]; ok && d != nil {
			if call, ok := ast.Unparen(d).(*ast.CallExpr); ok && IsBuiltin(info, call, "make") {
				madeFromSound = true
			}
		}
		for o := range soundIdent {
			resetRoot[o] = true
		}
		for o := range soundLenOf {
			if o == bytesObj && madeFromSound {
				continue
			}
			resetRoot[o] = true
		}
		isSound := func(e ast.Expr) bool {
			e = stripConv(info, e)
			if o := identObj(info, e); o != nil && soundIdent[o] {
				return true
			}
			if lc, ok := e.(*ast.CallExpr); ok && IsBuiltin(info, lc, "len") {
				if o := identObj(info, lc.Args[0]); o != nil && soundLenOf[o] {
					return true
				}
			}
			return false
		}
		bad := ""
		var badPos token.Pos
		unsoundCmp := ""
		w := &Walk{Info: info}
		w.Branch = func(w *Walk, ps PState, cond ast.Expr, val bool) (PState, bool) {
			be, ok := cond.(*ast.BinaryExpr)
			if !ok {
				return nil, true
			}
			var x ast.Expr
			op := be.Op
			switch {
			case isMaxReqLen(info, be.Y):
				x = be.X
			case isMaxReqLen(info, be.X):
				x = be.Y
				// mirror the operator
				switch op {
				case token.GTR:
					op = token.LSS
				case token.LSS:
					op = token.GTR
				case token.GEQ:
					op = token.LEQ
				case token.LEQ:
					op = token.GEQ
				}
			default:
				return nil, true
			}
			if !isSound(x) {
				unsoundCmp = types.ExprString(x)
				return nil, true
			}
			st := ps.(*s1State)
			ns := st.Copy().(*s1State)
			switch op {
			case token.GTR: // x > max
				if val {
					ns.tooLarge = true
				} else {
					ns.within = true
				}
			case token.LEQ: // x <= max
				if val {
					ns.within = true
				} else {
					ns.tooLarge = true
				}
			case token.GEQ: // x >= max : the limit itself would be refused
				if val {
					ns.tooLarge = true
				} else {
					ns.within = true
				}
				bad, badPos = "the comparison with MaxRequestLength is >= : a request of exactly the configured maximum is refused", be.Pos()
			case token.LSS:
				if val {
					ns.within = true
				} else {
					ns.tooLarge = true
				}
				bad, badPos = "the comparison with MaxRequestLength is < : a request of exactly the configured maximum is refused", be.Pos()
			}
			return ns, true
		}
		w.Event = func(w *Walk, ps PState, n ast.Node) []PState {
			// a new frame: (re)definition of the request bytes or of their length resets the verdict
			if as, ok := n.(*ast.AssignStmt); ok {
				for _, l := range as.Lhs {
					if o := identObj(info, l); o != nil && resetRoot[o] {
						return []PState{&s1State{}}
					}
				}
				return nil
			}
			call, ok := n.(*ast.CallExpr)
			if !ok {
				return nil
			}
			if _, ok := isDispatch(call); ok {
				st := ps.(*s1State)
				if (!st.within || st.tooLarge) && bad == "" {
					badPos = call.Pos()
					if st.tooLarge {
						bad = "the too-large edge of the limit check reaches the dispatch"
					} else if unsoundCmp != "" {
						bad = fmt.Sprintf("the request is dispatched after comparing only %s with MaxRequestLength, which is a length the peer declares, not the length of the bytes that are dispatched (absent, wrong or chunked declarations bypass the limit)", unsoundCmp)
					} else {
						bad = "a path reaches the dispatch without any comparison of the request's length with MaxRequestLength"
					}
				}
			}
			return nil
		}
		// the loop body of the receive loops is what matters: default fixpoint is fine (finite state)
		w.Run(fd.Body, &s1State{})
		switch {
		case len(w.Undecided) > 0:
			r.Undec(key, fd.Pos(), strings.Join(w.Undecided, "; "))
		case bad != "":
			r.Viol(key, badPos, bad)
		default:
			r.Ok(key, fd.Pos(), "every path to the dispatch passed `sound length > MaxRequestLength` on its false edge")
		}
	}
}

// ---------------------------------------------------------------------------------------
// S2

func ruleS2(r *Run) {
	p := r.P
	p.EachFunc(func(pkg *packages.Package, fd *ast.FuncDecl) {
		info := pkg.TypesInfo
		defs := localDefs(info, fd.Body)
		n := 0
		ast.Inspect(fd.Body, func(m ast.Node) bool {
			call, ok := m.(*ast.CallExpr)
			if !ok {
				return true
			}
			f := Callee(info, call)
			if f == nil {
				return true
			}
			full := FullName(f)
			if full != "io.ReadAtLeast" && full != "io.ReadFull" {
				return true
			}
			n++
			key := fmt.Sprintf("exact read #%d in %s", n, p.DeclName(fd))
			buf := ast.Unparen(call.Args[1])
			// length of the buffer
			var bufLenConst int64 = -1
			var bufLenObj types.Object
			if se, ok := buf.(*ast.SliceExpr); ok && se.Low == nil && se.High == nil {
				if at, ok := info.TypeOf(se.X).Underlying().(*types.Array); ok {
					bufLenConst = at.Len()
				}
			} else if o := identObj(info, buf); o != nil {
				if d, ok := defs[o]; ok && d != nil {
					if mk, ok := ast.Unparen(d).(*ast.CallExpr); ok && IsBuiltin(info, mk, "make") && len(mk.Args) == 2 {
						bufLenObj = identObj(info, stripConv(info, mk.Args[1]))
						if c, ok := intConst(info, mk.Args[1]); ok {
							bufLenConst = c
						}
					}
				}
			}
			if full == "io.ReadFull" {
				if bufLenConst >= 0 || bufLenObj != nil {
					r.Ok(key, call.Pos(), "ReadFull into a buffer of the declared length")
				} else {
					r.Undec(key, call.Pos(), "buffer length not recognised")
				}
				return true
			}
			min := call.Args[2]
			if c, ok := intConst(info, min); ok && bufLenConst >= 0 {
				r.Check(c == bufLenConst, key, call.Pos(), fmt.Sprintf("min %d == len(buffer)", c), fmt.Sprintf("ReadAtLeast accepts %d bytes for a %d-byte buffer: a short read is taken for a complete header/body and the rest of the buffer keeps stale or zero bytes", c, bufLenConst))
				return true
			}
			if o := identObj(info, stripConv(info, min)); o != nil && bufLenObj != nil {
				r.Check(o == bufLenObj, key, call.Pos(), "min is the length the buffer was allocated with", "ReadAtLeast's minimum is not the length the buffer was allocated with: a truncated body is delivered padded with zeros")
				return true
			}
			if lc, ok := stripConv(info, min).(*ast.CallExpr); ok && IsBuiltin(info, lc, "len") && identObj(info, lc.Args[0]) == identObj(info, buf) && identObj(info, buf) != nil {
				r.Ok(key, call.Pos(), "min is len(buffer)")
				return true
			}
			r.Viol(key, call.Pos(), "ReadAtLeast's minimum "+types.ExprString(min)+" is not provably the length of the buffer: a short read delivers a truncated/padded frame")
			return true
		})
	})
}

// ---------------------------------------------------------------------------------------
// S3

func ruleS3(r *Run) {
	p := r.P
	for _, s := range []struct{ pkg, fn string }{{"rpc/udp", "Handler.receive"}, {"rpc/udp", "conn.receive"}} {
		fd, pkg := p.DeclOf(s.pkg, s.fn)
		keyA := "declared length compared with bytes received in " + s.pkg + "." + s.fn
		keyB := "bounded copy out of the receive buffer in " + s.pkg + "." + s.fn
		if fd == nil {
			r.Undec(keyA, 0, "function not found")
			continue
		}
		info := pkg.TypesInfo
		// n: first result of the Read* call on a byte-array slice; length: first result of parseHeader
		var nObj, lenObj, bufObj types.Object
		ast.Inspect(fd.Body, func(m ast.Node) bool {
			as, ok := m.(*ast.AssignStmt)
			if !ok || len(as.Rhs) != 1 {
				return true
			}
			call, ok := ast.Unparen(as.Rhs[0]).(*ast.CallExpr)
			if !ok {
				return true
			}
			name := methodName(call)
			if (name == "ReadFromUDP" || name == "Read") && len(call.Args) == 1 {
				if se, ok := ast.Unparen(call.Args[0]).(*ast.SliceExpr); ok {
					bufObj = identObj(info, se.X)
					nObj = identObj(info, as.Lhs[0])
				}
			}
			if f := Callee(info, call); f != nil && refName(f.Name()) == "parseHeader" {
				lenObj = identObj(info, as.Lhs[0])
			}
			return true
		})
		if nObj == nil || lenObj == nil || bufObj == nil {
			r.Undec(keyA, fd.Pos(), "read count, declared length or receive buffer not found")
			continue
		}
		mentions := func(e ast.Node, o types.Object) bool {
			found := false
			ast.Inspect(e, func(k ast.Node) bool {
				if id, ok := k.(*ast.Ident); ok && info.Uses[id] == o {
					found = true
				}
				return true
			})
			return found
		}
		cmp := false
		ast.Inspect(fd.Body, func(m ast.Node) bool {
			if be, ok := m.(*ast.BinaryExpr); ok {
				switch be.Op {
				case token.GTR, token.LSS, token.GEQ, token.LEQ, token.NEQ, token.EQL:
					if mentions(be, nObj) && mentions(be, lenObj) {
						cmp = true
					}
				}
			}
			return true
		})
		r.Check(cmp, keyA, fd.Pos(), "length is compared with the received count", "the length declared in the datagram header is never compared with the number of bytes received: a frame that declares more than it carries is completed with whatever the reused buffer still holds (another client's data) or with zeros")
		// copies out of the buffer: copy(dst, buffer[lo:hi]) must have hi
		okCopy, nCopy := true, 0
		ast.Inspect(fd.Body, func(m ast.Node) bool {
			call, ok := m.(*ast.CallExpr)
			if !ok || !IsBuiltin(info, call, "copy") || len(call.Args) != 2 {
				return true
			}
			se, ok := ast.Unparen(call.Args[1]).(*ast.SliceExpr)
			if !ok || identObj(info, se.X) != bufObj {
				return true
			}
			nCopy++
			if se.High == nil {
				okCopy = false
			}
			return true
		})
		if nCopy == 0 {
			r.Undec(keyB, fd.Pos(), "no copy out of the receive buffer found")
		} else {
			r.Check(okCopy, keyB, fd.Pos(), "copy source has an upper bound", "the body is copied from buffer[8:] without an upper bound: bytes beyond what this datagram carried are delivered")
		}
		// exact: the body is taken only where declared == received (both directions excluded)
		parents := parentMap(fd.Body)
		ast.Inspect(fd.Body, func(m ast.Node) bool {
			call, ok := m.(*ast.CallExpr)
			if !ok || !IsBuiltin(info, call, "copy") || len(call.Args) != 2 {
				return true
			}
			se, ok := ast.Unparen(call.Args[1]).(*ast.SliceExpr)
			if !ok || identObj(info, se.X) != bufObj {
				return true
			}
			eq, notMore, notLess := false, false, false
			for _, fc := range factsWithSwitch(parents, call) {
				be, ok := fc.e.(*ast.BinaryExpr)
				if !ok || !mentions(be, nObj) || !mentions(be, lenObj) {
					continue
				}
				op := be.Op
				if fc.neg {
					switch op {
					case token.EQL:
						op = token.NEQ
					case token.NEQ:
						op = token.EQL
					case token.GTR:
						op = token.LEQ
					case token.GEQ:
						op = token.LSS
					case token.LSS:
						op = token.GEQ
					case token.LEQ:
						op = token.GTR
					}
				}
				if mentions(be.Y, lenObj) && !mentions(be.X, lenObj) { // mirror: the declared length on the left
					switch op {
					case token.GTR:
						op = token.LSS
					case token.GEQ:
						op = token.LEQ
					case token.LSS:
						op = token.GTR
					case token.LEQ:
						op = token.GEQ
					}
				}
				switch op {
				case token.EQL:
					eq = true
				case token.LEQ:
					notMore = true
				case token.GEQ:
					notLess = true
				}
			}
			r.Check(eq || notMore && notLess, "body taken only when the declared length equals the bytes received in "+s.pkg+"."+s.fn, call.Pos(), "declared == received on this path", "the body is copied out although the path only excludes one direction of the comparison between the declared length and the bytes received: a datagram that carries more (or less) than its header says is cut to the declared length (or padded) and handed on as if it were the bytes that were sent, instead of being rejected")
			return true
		})
	}
}

// ---------------------------------------------------------------------------------------
// S4

type headerTerm struct {
	v     string
	shift int64
}

func ruleS4(r *Run) {
	p := r.P
	for _, tr := range []string{"rpc/socket", "rpc/udp", "rpc/websocket"} {
		mk, pkg := p.DeclOf(tr, "makeHeader")
		ps, _ := p.DeclOf(tr, "parseHeader")
		key := "header layout " + tr
		if mk == nil || ps == nil {
			r.Undec(key, 0, "makeHeader/parseHeader not found")
			continue
		}
		info := pkg.TypesInfo
		// makeHeader: header[i] = byte(<expr mentioning var v with shift k>)
		mkMap := map[int64]headerTerm{}
		ast.Inspect(mk.Body, func(n ast.Node) bool {
			as, ok := n.(*ast.AssignStmt)
			if !ok || len(as.Lhs) != 1 {
				return true
			}
			ie, ok := as.Lhs[0].(*ast.IndexExpr)
			if !ok {
				return true
			}
			i, ok := intConst(info, ie.Index)
			if !ok {
				return true
			}
			t := headerTerm{}
			ast.Inspect(as.Rhs[0], func(m ast.Node) bool {
				switch y := m.(type) {
				case *ast.BinaryExpr:
					if y.Op == token.SHR {
						if k, ok := intConst(info, y.Y); ok {
							t.shift = k
						}
					}
				case *ast.Ident:
					if v, ok := info.Uses[y].(*types.Var); ok && !v.IsField() && y.Name != "header" {
						t.v = y.Name
					}
				}
				return true
			})
			mkMap[i] = t
			return true
		})
		// parseHeader: v = T(header[i]) << k | ...
		psMap := map[int64]headerTerm{}
		ast.Inspect(ps.Body, func(n ast.Node) bool {
			as, ok := n.(*ast.AssignStmt)
			if !ok || len(as.Lhs) != 1 || len(as.Rhs) != 1 {
				return true
			}
			id, ok := as.Lhs[0].(*ast.Ident)
			if !ok || as.Tok == token.AND_ASSIGN {
				return true
			}
			var visit func(e ast.Expr, shift int64)
			visit = func(e ast.Expr, shift int64) {
				e = ast.Unparen(e)
				switch y := e.(type) {
				case *ast.BinaryExpr:
					if y.Op == token.OR {
						visit(y.X, shift)
						visit(y.Y, shift)
					} else if y.Op == token.SHL {
						if k, ok := intConst(info, y.Y); ok {
							visit(y.X, k)
						}
					} else if y.Op == token.AND {
						visit(y.X, shift)
					}
				case *ast.CallExpr:
					if _, isConv := isConversion(info, y); isConv {
						visit(y.Args[0], shift)
					}
				case *ast.IndexExpr:
					if i, ok := intConst(info, y.Index); ok {
						if _, dup := psMap[i]; !dup {
							psMap[i] = headerTerm{id.Name, shift}
						}
					}
				}
			}
			visit(as.Rhs[0], 0)
			return true
		})
		var idx []int64
		for i := range mkMap {
			idx = append(idx, i)
		}
		sort.Slice(idx, func(a, b int) bool { return idx[a] < idx[b] })
		mism := ""
		for _, i := range idx {
			if psMap[i] != mkMap[i] {
				mism += fmt.Sprintf(" byte %d: written as %s>>%d, read as %s<<%d;", i, mkMap[i].v, mkMap[i].shift, psMap[i].v, psMap[i].shift)
			}
		}
		if len(mkMap) == 0 || len(psMap) == 0 {
			r.Undec(key, mk.Pos(), "header assignments not recognised")
		} else {
			r.Check(mism == "" && len(psMap) == len(mkMap), key, ps.Pos(), fmt.Sprintf("%d header bytes agree", len(mkMap)), "makeHeader and parseHeader disagree on the frame layout:"+mism+" request/response ids or lengths are exchanged between the peers")
		}
		// checksum over the same sub-slice
		crcArg := func(fd *ast.FuncDecl) string {
			res := ""
			ast.Inspect(fd.Body, func(n ast.Node) bool {
				if call, ok := n.(*ast.CallExpr); ok {
					if f := Callee(info, call); f != nil && FullName(f) == "hash/crc32.ChecksumIEEE" {
						res = types.ExprString(call.Args[0])
					}
				}
				return true
			})
			return res
		}
		a, b := crcArg(mk), crcArg(ps)
		ck := "checksum range " + tr
		if a == "" && b == "" {
			r.Ok(ck, mk.Pos(), "transport has no header checksum (message framing by the websocket layer)")
		} else {
			r.Check(a == b, ck, ps.Pos(), "both sides checksum "+a, fmt.Sprintf("makeHeader checksums %s but parseHeader verifies %s", a, b))
			// the checksum comparison must lead to the failure tuple
			failOK := false
			ast.Inspect(ps.Body, func(n ast.Node) bool {
				ifs, ok := n.(*ast.IfStmt)
				if !ok {
					return true
				}
				mentionsCRC := false
				ast.Inspect(ifs.Cond, func(m ast.Node) bool {
					if call, ok := m.(*ast.CallExpr); ok {
						if f := Callee(info, call); f != nil && FullName(f) == "hash/crc32.ChecksumIEEE" {
							mentionsCRC = true
						}
					}
					return true
				})
				if be, ok := ifs.Cond.(*ast.BinaryExpr); ok && mentionsCRC && be.Op == token.NEQ && endsInReturn(ifs.Body.List) {
					failOK = true
				}
				// the inverted spelling: `if crc == expected { ...; return }` and the failure tuple (a negative index) is what the
				// rest of the function returns
				if be, ok := ifs.Cond.(*ast.BinaryExpr); ok && mentionsCRC && be.Op == token.EQL && endsInReturn(ifs.Body.List) {
					after := false
					for _, st := range ps.Body.List {
						if st == ast.Stmt(ifs) {
							after = true
							continue
						}
						if !after {
							continue
						}
						if as, ok := st.(*ast.AssignStmt); ok && len(as.Rhs) == 1 {
							if v, ok := intConst(info, as.Rhs[0]); ok && v < 0 {
								failOK = true
							}
						}
					}
				}
				return true
			})
			r.Check(failOK, "checksum mismatch rejects "+tr, ps.Pos(), "crc != expected returns the failure tuple", "a checksum mismatch no longer makes parseHeader return its failure result")
		}
	}
	// callers test the failure tuple before using length/index: in each receive function the first
	// use of the parseHeader results after the call is the failure test
	for _, s := range []struct{ pkg, fn string }{{"rpc/socket", "Handler.receive"}, {"rpc/socket", "conn.receive"}, {"rpc/udp", "Handler.receive"}, {"rpc/udp", "conn.receive"}} {
		fd, pkg := p.DeclOf(s.pkg, s.fn)
		key := "failure tuple tested first in " + s.pkg + "." + s.fn
		if fd == nil {
			r.Undec(key, 0, "function not found")
			continue
		}
		info := pkg.TypesInfo
		var res []types.Object
		var callPos token.Pos
		ast.Inspect(fd.Body, func(n ast.Node) bool {
			if as, ok := n.(*ast.AssignStmt); ok && len(as.Rhs) == 1 {
				if call, ok := ast.Unparen(as.Rhs[0]).(*ast.CallExpr); ok {
					if f := Callee(info, call); f != nil && refName(f.Name()) == "parseHeader" {
						callPos = call.End()
						for _, l := range as.Lhs {
							res = append(res, identObj(info, l))
						}
					}
				}
			}
			return true
		})
		if len(res) != 3 {
			r.Undec(key, fd.Pos(), "parseHeader call not found")
			continue
		}
		// first expression after the call mentioning any result must mention all three (the tuple test)
		var first ast.Expr
		ast.Inspect(fd.Body, func(n ast.Node) bool {
			if first != nil {
				return false
			}
			var cond ast.Expr
			switch y := n.(type) {
			case *ast.IfStmt:
				cond = y.Cond
			case *ast.CaseClause:
				if len(y.List) == 1 {
					cond = y.List[0]
				}
			}
			if cond != nil && cond.Pos() > callPos {
				first = cond
			}
			return true
		})
		all := first != nil
		if first != nil {
			for _, o := range res {
				found := false
				ast.Inspect(first, func(m ast.Node) bool {
					if id, ok := m.(*ast.Ident); ok && info.Uses[id] == o {
						found = true
					}
					return true
				})
				if !found {
					all = false
				}
			}
		}
		r.Check(all, key, fd.Pos(), "first test after parseHeader is the failure tuple", "the first test after parseHeader is not the (length==0 && index==-1 && !ok) failure test: a frame with a bad checksum is processed")
	}
}

// ---------------------------------------------------------------------------------------
// S5

func ruleS5(r *Run) {
	p := r.P
	marker := p.LookupObj("rpc/core", "RequestEntityTooLarge")
	errObj := p.LookupObj("rpc/core", "ErrRequestEntityTooLarge")
	if marker == nil || errObj == nil {
		r.Undec("constants", 0, "core.RequestEntityTooLarge / ErrRequestEntityTooLarge not found")
		return
	}
	uses := func(pkgRel, fn string, o types.Object) bool {
		fd, pkg := p.DeclOf(pkgRel, fn)
		if fd == nil {
			return false
		}
		found := false
		// also in the helpers the function calls (the mapping may have been extracted)
		p.deepInspect(pkg.TypesInfo, fd.Body, 2, func(info *types.Info, n ast.Node) bool {
			if id, ok := n.(*ast.Ident); ok && info.Uses[id] == o {
				found = true
			}
			return true
		})
		return found
	}
	for _, tr := range []string{"rpc/socket", "rpc/udp", "rpc/websocket"} {
		r.Check(uses(tr, "Handler.send", marker) && uses(tr, "Handler.send", errObj), "handler signals too-large in-band "+tr, 0, "Handler.send maps ErrRequestEntityTooLarge to the marker", "Handler.send no longer maps ErrRequestEntityTooLarge to the core.RequestEntityTooLarge marker")
		r.Check(uses(tr, "conn.receive", marker) && uses(tr, "conn.receive", errObj), "client maps marker back "+tr, 0, "conn.receive maps the marker to ErrRequestEntityTooLarge", "conn.receive no longer recognises the core.RequestEntityTooLarge marker: the caller gets a generic invalid-response error instead of request-too-large")
	}
}

// ---------------------------------------------------------------------------------------
// S6

func ruleS6(r *Run) {
	p := r.P
	for _, s := range []struct{ pkg, fn string }{{"rpc/udp", "Handler.send"}, {"rpc/udp", "conn.send"}} {
		key := "payload fits the datagram buffer in " + s.pkg + "." + s.fn
		fd, pkg := p.DeclOf(s.pkg, s.fn)
		if fd == nil {
			r.Undec(key, 0, "function not found")
			continue
		}
		info := pkg.TypesInfo
		// copy(buffer[k:], payload) into a byte ARRAY with k > 0
		var cp *ast.CallExpr
		var bufObj types.Object
		ast.Inspect(fd.Body, func(n ast.Node) bool {
			call, ok := n.(*ast.CallExpr)
			if !ok || !IsBuiltin(info, call, "copy") || len(call.Args) != 2 {
				return true
			}
			se, ok := ast.Unparen(call.Args[0]).(*ast.SliceExpr)
			if !ok || se.Low == nil {
				return true
			}
			if _, isArr := info.TypeOf(se.X).Underlying().(*types.Array); !isArr {
				return true
			}
			if _, isArrSrc := info.TypeOf(call.Args[1]).Underlying().(*types.Slice); isArrSrc {
				cp, bufObj = call, identObj(info, se.X)
			}
			return true
		})
		payload := ""
		cpPos := token.NoPos
		if cp != nil {
			payload, cpPos = types.ExprString(cp.Args[1]), cp.Pos()
		} else {
			// the copy may have moved into a helper of the package that is given the array as a slice (packDatagram(buffer[:],
			// index, body) with copy(buffer[8:], body) inside): the helper's copy, read with the caller's arguments
			ast.Inspect(fd.Body, func(n ast.Node) bool {
				call, ok := n.(*ast.CallExpr)
				if !ok || cp != nil {
					return true
				}
				d, cpkg := p.calleeDecl(info, call)
				if d == nil || cpkg != pkg || d.Body == nil {
					return true
				}
				params := paramsOf(info, d.Type)
				argOf := func(o types.Object) ast.Expr {
					for i, pv := range params {
						if pv != nil && types.Object(pv) == o && i < len(call.Args) {
							return call.Args[i]
						}
					}
					return nil
				}
				ast.Inspect(d.Body, func(m ast.Node) bool {
					ic, ok := m.(*ast.CallExpr)
					if !ok || !IsBuiltin(info, ic, "copy") || len(ic.Args) != 2 {
						return true
					}
					se, ok := ast.Unparen(ic.Args[0]).(*ast.SliceExpr)
					if !ok || se.Low == nil {
						return true
					}
					dstArg, srcArg := argOf(identObj(info, se.X)), argOf(identObj(info, ic.Args[1]))
					if dstArg == nil || srcArg == nil {
						return true
					}
					// the destination argument is the whole array: arr[:]
					if ase, ok := ast.Unparen(dstArg).(*ast.SliceExpr); ok && ase.Low == nil && ase.High == nil {
						if _, isArr := info.TypeOf(ase.X).Underlying().(*types.Array); isArr {
							cp, bufObj, payload, cpPos = ic, identObj(info, ase.X), types.ExprString(srcArg), call.Pos()
						}
					}
					return true
				})
				return true
			})
		}
		if cp == nil {
			r.Undec(key, fd.Pos(), "copy of the payload into the datagram buffer not found")
			continue
		}
		guarded := false
		headerShort := ""
		ast.Inspect(fd.Body, func(n ast.Node) bool {
			ifs, ok := n.(*ast.IfStmt)
			if !ok || ifs.Pos() > cpPos {
				return true
			}
			mPayload, mBuf := false, false
			ast.Inspect(ifs.Cond, func(m ast.Node) bool {
				if c, ok := m.(*ast.CallExpr); ok && IsBuiltin(info, c, "len") {
					if types.ExprString(c.Args[0]) == payload {
						mPayload = true
					}
					if identObj(info, c.Args[0]) == bufObj {
						mBuf = true
					}
				}
				return true
			})
			if mPayload && mBuf {
				guarded = true
				// the payload is copied BEHIND a header of k bytes (copy(buffer[k:], payload)): the test has to leave room for it
				if k, ok := intConst(info, ast.Unparen(cp.Args[0]).(*ast.SliceExpr).Low); ok && k > 0 {
					room := int64(0)
					ast.Inspect(ifs.Cond, func(m ast.Node) bool {
						if b, ok := m.(*ast.BinaryExpr); ok && (b.Op == token.SUB || b.Op == token.ADD) {
							if c, ok := intConst(info, b.Y); ok {
								if lc, ok := ast.Unparen(b.X).(*ast.CallExpr); ok && IsBuiltin(info, lc, "len") {
									if (b.Op == token.SUB && identObj(info, lc.Args[0]) == bufObj) || (b.Op == token.ADD && types.ExprString(lc.Args[0]) == payload) {
										room = c
									}
								}
							}
						}
						return true
					})
					if room < k {
						headerShort = fmt.Sprintf("the test `%s` leaves %d bytes for a header of %d", types.ExprString(ifs.Cond), room, k)
					}
				}
			}
			return true
		})
		if guarded && headerShort != "" {
			r.Viol(key, cp.Pos(), headerShort+": a payload within the last bytes below the buffer size passes the test, copy truncates it silently and the datagram goes out shorter than its header declares - the receiver takes that for a broken connection and fails every pending call")
			continue
		}
		r.Check(guarded, key, cp.Pos(), "len(payload) compared with len(buffer) before the copy", fmt.Sprintf("%s is copied into the fixed datagram buffer without a preceding check of len(%s) against the buffer: copy truncates silently (or the slice of the buffer panics), so a message is sent shorter than its header declares", payload, payload))
	}
}
