package main

import (
	"fmt"
	"go/ast"
	"go/token"
	"go/types"
	"strings"

	"golang.org/x/tools/go/packages"
)

// G14 server-index provenance (C18), G13 plugin classification (C15), G1b retry counter
// increments (C16), P7 connection end handling (C10).

func init() {
	register("G14", "every index used to pick a server (URLs[i] / urls[i]) or an in-flight counter (actives[i]) in the load balancers is, by construction, within 0..n-1: the constant 0, a loop variable bounded by n, rand.Intn(n), x % n, n-1, a value returned by a getIndex that only returns such values, or an element of a candidate slice that was filled with such loop variables and is itself indexed in range", 10, ruleG14)
	register("G13", "SeparatePluginHandlers classifies every accepted plugin form into the right list (invoke handlers to the invoke list, IO handlers to the IO list, both hooks of a full plugin) and panics on anything else", 6, ruleG13)
	register("G1b", "the retry counters of the provided cluster configurations advance by exactly one per retry and are stored back into the call context (otherwise the retry budget of G1 is never reached or skipped)", 2, ruleG1b)
	register("P7", "connection end handling: Send and Receive of every transport defer Exit; Exit runs onExit and closes the connection with the error; onExit removes the connection from the pool under the pool lock and cancels its context; Close fails every pending call through the swept table", 12, ruleP7)
}

type g14 struct {
	p    *Prog
	info *types.Info
	body ast.Node
	// n-like objects: locals defined as len(<URLs>) ; count-like: len(candidate slice)
	nObjs     map[types.Object]bool
	candSlice map[types.Object]bool // []int locals filled only with in-range loop variables
	countOf   map[types.Object]types.Object
	assigns   map[types.Object][]ast.Expr
	loopVars  map[types.Object]ast.Expr // loop var -> bound expr
	getIndex  map[*types.Func]bool      // callee getIndex functions already verified in range
	visiting  map[types.Object]bool
	depth     int
}

func isURLsExpr(info *types.Info, e ast.Expr) bool {
	e = ast.Unparen(e)
	if fv := fieldOf(info, e); fv != nil && fv.Name() == "URLs" {
		return true
	}
	if id, ok := e.(*ast.Ident); ok && (id.Name == "urls" || id.Name == "uris") {
		return true
	}
	return false
}

func (g *g14) isN(e ast.Expr) bool {
	e = stripConv(g.info, e)
	if o := identObj(g.info, e); o != nil && g.nObjs[o] {
		return true
	}
	if c, ok := e.(*ast.CallExpr); ok && IsBuiltin(g.info, c, "len") && isURLsExpr(g.info, c.Args[0]) {
		return true
	}
	return false
}

func (g *g14) isCountOf(e ast.Expr, s types.Object) bool {
	e = stripConv(g.info, e)
	if o := identObj(g.info, e); o != nil && g.countOf[o] == s {
		return true
	}
	if c, ok := e.(*ast.CallExpr); ok && IsBuiltin(g.info, c, "len") && identObj(g.info, c.Args[0]) == s {
		return true
	}
	return false
}

// inRange: e is a valid server index by construction
func (g *g14) inRange(e ast.Expr, depth int) bool {
	if depth > 8 {
		return false
	}
	e = stripConv(g.info, e)
	if c, ok := intConst(g.info, e); ok {
		return c == 0
	}
	switch x := e.(type) {
	case *ast.Ident:
		o := g.info.Uses[x]
		if o == nil {
			o = g.info.Defs[x]
		}
		if o == nil {
			return false
		}
		if b, ok := g.loopVars[o]; ok {
			return g.isN(b)
		}
		if g.visiting[o] {
			return true
		}
		as := g.assigns[o]
		if len(as) == 0 {
			return false
		}
		g.visiting[o] = true
		defer delete(g.visiting, o)
		for _, rhs := range as {
			if !g.inRange(rhs, depth+1) && !g.clampedAfter(o, rhs) {
				return false
			}
		}
		return true
	case *ast.SelectorExpr: // lb.index : every assignment to the field in this function is in range
		if fv := fieldOf(g.info, x); fv != nil {
			ok, seen := true, false
			ast.Inspect(g.body, func(n ast.Node) bool {
				if as, isA := n.(*ast.AssignStmt); isA && len(as.Lhs) == len(as.Rhs) {
					for i, l := range as.Lhs {
						if fieldOf(g.info, l) == fv {
							seen = true
							if !g.inRange(as.Rhs[i], depth+1) {
								ok = false
							}
						}
					}
				}
				return true
			})
			return ok && seen
		}
	case *ast.BinaryExpr:
		if x.Op == token.REM && g.isN(x.Y) {
			return true
		}
		if x.Op == token.SUB && g.isN(x.X) {
			if c, ok := intConst(g.info, x.Y); ok && c == 1 {
				return true
			}
		}
	case *ast.CallExpr:
		if f := Callee(g.info, x); f != nil {
			if FullName(f) == "math/rand.Intn" && len(x.Args) == 1 && g.isN(x.Args[0]) {
				return true
			}
			if g.getIndex[f] {
				return true
			}
			// a helper of the balancer that is given n and returns only in-range values with respect to it
			// (weightedPick(weights, n, point): `return i` inside `for i := 0; i < n; i++`, `return n - 1`)
			if d, cpkg := g.p.calleeDecl(g.info, x); d != nil && cpkg.TypesInfo == g.info && g.depth < 2 && d.Body != nil {
				h := &g14{p: g.p, info: g.info, body: d.Body, getIndex: g.getIndex, depth: g.depth + 1}
				h.prepare()
				params := paramsOf(g.info, d.Type)
				bound := false
				for i, a := range x.Args {
					if i < len(params) && params[i] != nil && g.isN(a) {
						h.nObjs[params[i]] = true
						bound = true
					}
				}
				if bound {
					h.prepare2()
					okRet, nRet := true, 0
					ast.Inspect(d.Body, func(m ast.Node) bool {
						if _, isLit := m.(*ast.FuncLit); isLit {
							return false
						}
						if ret, ok := m.(*ast.ReturnStmt); ok {
							nRet++
							if len(ret.Results) != 1 || !h.inRange(ret.Results[0], depth+1) {
								okRet = false
							}
						}
						return true
					})
					if okRet && nRet > 0 {
						return true
					}
				}
			}
		}
	case *ast.IndexExpr: // candidate[k]
		s := identObj(g.info, x.X)
		if s == nil || !g.candSlice[s] {
			return false
		}
		k := stripConv(g.info, x.Index)
		if c, ok := intConst(g.info, k); ok {
			return c == 0
		}
		if o := identObj(g.info, k); o != nil {
			if b, ok := g.loopVars[o]; ok && g.isCountOf(b, s) {
				return true
			}
		}
		if c, ok := k.(*ast.CallExpr); ok {
			if f := Callee(g.info, c); f != nil && FullName(f) == "math/rand.Intn" && len(c.Args) == 1 && g.isCountOf(c.Args[0], s) {
				return true
			}
		}
	}
	return false
}

// clampedAfter: the assignment `o = rhs` is followed, in the same block, by `if o >= n { ...; o = 0 }`
// (the wrap-around of a counter written in place): whatever rhs was, o is below n afterwards.
func (g *g14) clampedAfter(o types.Object, rhs ast.Expr) bool {
	ok := false
	ast.Inspect(g.body, func(n ast.Node) bool {
		blk, isB := n.(*ast.BlockStmt)
		if !isB || ok {
			return true
		}
		for i, s := range blk.List {
			as, isA := s.(*ast.AssignStmt)
			if !isA || len(as.Lhs) != len(as.Rhs) {
				continue
			}
			hit := false
			for k, l := range as.Lhs {
				if identObj(g.info, l) == o && as.Rhs[k] == rhs {
					hit = true
				}
			}
			if !hit || i+1 >= len(blk.List) {
				continue
			}
			ifs, isI := blk.List[i+1].(*ast.IfStmt)
			if !isI {
				continue
			}
			be, isBe := ast.Unparen(ifs.Cond).(*ast.BinaryExpr)
			if !isBe || be.Op != token.GEQ || identObj(g.info, be.X) != o || !g.isN(be.Y) {
				continue
			}
			for _, bs := range ifs.Body.List {
				if a2, isA2 := bs.(*ast.AssignStmt); isA2 && len(a2.Lhs) == 1 && len(a2.Rhs) == 1 && identObj(g.info, a2.Lhs[0]) == o {
					if c, isC := intConst(g.info, a2.Rhs[0]); isC && c == 0 {
						ok = true
					}
				}
			}
		}
		return true
	})
	return ok
}

func (g *g14) prepare() {
	g.nObjs, g.candSlice, g.countOf = map[types.Object]bool{}, map[types.Object]bool{}, map[types.Object]types.Object{}
	g.assigns, g.loopVars, g.visiting = map[types.Object][]ast.Expr{}, map[types.Object]ast.Expr{}, map[types.Object]bool{}
	ast.Inspect(g.body, func(n ast.Node) bool {
		switch x := n.(type) {
		case *ast.AssignStmt:
			if len(x.Lhs) == len(x.Rhs) {
				for i, l := range x.Lhs {
					if o := identObj(g.info, l); o != nil {
						g.assigns[o] = append(g.assigns[o], x.Rhs[i])
						rhs := stripConv(g.info, x.Rhs[i])
						if c, ok := rhs.(*ast.CallExpr); ok && IsBuiltin(g.info, c, "len") {
							if isURLsExpr(g.info, c.Args[0]) {
								g.nObjs[o] = true
							} else if so := identObj(g.info, c.Args[0]); so != nil {
								g.countOf[o] = so
							}
						}
					}
				}
			}
		case *ast.ForStmt:
			if iv, _, ok := countedLoop(g.info, x); ok {
				g.loopVars[iv] = x.Cond.(*ast.BinaryExpr).Y
			}
		}
		return true
	})
	// candidate slices: []int locals whose every append adds an n-bounded loop variable
	cands := map[types.Object]bool{}
	bad := map[types.Object]bool{}
	ast.Inspect(g.body, func(n ast.Node) bool {
		as, ok := n.(*ast.AssignStmt)
		if !ok || len(as.Lhs) != 1 || len(as.Rhs) != 1 {
			return true
		}
		call, ok := ast.Unparen(as.Rhs[0]).(*ast.CallExpr)
		if !ok || !IsBuiltin(g.info, call, "append") {
			return true
		}
		s := identObj(g.info, as.Lhs[0])
		if s == nil || identObj(g.info, call.Args[0]) != s {
			return true
		}
		cands[s] = true
		for _, a := range call.Args[1:] {
			o := identObj(g.info, a)
			b, isLoop := g.loopVars[o]
			if o == nil || !isLoop || !g.isN(b) {
				bad[s] = true
			}
		}
		return true
	})
	for s := range cands {
		if !bad[s] {
			g.candSlice[s] = true
		}
	}
	g.copies()
	// a candidate slice produced by a helper of the balancer: S := lb.candidates(n) where the helper
	// returns a slice that is a candidate slice with respect to its own parameter
	if g.depth < 1 {
		ast.Inspect(g.body, func(n ast.Node) bool {
			as, ok := n.(*ast.AssignStmt)
			if !ok || len(as.Lhs) != 1 || len(as.Rhs) != 1 {
				return true
			}
			call, ok := ast.Unparen(as.Rhs[0]).(*ast.CallExpr)
			if !ok {
				return true
			}
			d, cpkg := g.p.calleeDecl(g.info, call)
			if d == nil || cpkg.TypesInfo != g.info {
				return true
			}
			if tv, ok := g.info.Types[as.Rhs[0]]; !ok || tv.Type.String() != "[]int" {
				return true
			}
			h := &g14{p: g.p, info: g.info, body: d.Body, getIndex: g.getIndex, depth: g.depth + 1}
			h.prepare()
			// the helper's n: the parameter that receives an n of the caller
			params := paramsOf(g.info, d.Type)
			for i, a := range call.Args {
				if i < len(params) && params[i] != nil && g.isN(a) {
					h.nObjs[params[i]] = true
				}
			}
			h.prepare2()
			okRet, nRet := true, 0
			ast.Inspect(d.Body, func(m ast.Node) bool {
				if ret, ok := m.(*ast.ReturnStmt); ok && len(ret.Results) == 1 {
					nRet++
					if o := identObj(g.info, ret.Results[0]); o == nil || !h.candSlice[o] {
						okRet = false
					}
				}
				return true
			})
			if okRet && nRet > 0 {
				if s := identObj(g.info, as.Lhs[0]); s != nil {
					g.candSlice[s] = true
				}
			}
			return true
		})
	}
}

// prepare2 recomputes the candidate slices after nObjs was extended (parameters bound by the caller).
func (g *g14) prepare2() {
	cands := map[types.Object]bool{}
	bad := map[types.Object]bool{}
	ast.Inspect(g.body, func(n ast.Node) bool {
		as, ok := n.(*ast.AssignStmt)
		if !ok || len(as.Lhs) != 1 || len(as.Rhs) != 1 {
			return true
		}
		call, ok := ast.Unparen(as.Rhs[0]).(*ast.CallExpr)
		if !ok || !IsBuiltin(g.info, call, "append") {
			return true
		}
		s := identObj(g.info, as.Lhs[0])
		if s == nil || identObj(g.info, call.Args[0]) != s {
			return true
		}
		cands[s] = true
		for _, a := range call.Args[1:] {
			o := identObj(g.info, a)
			b, isLoop := g.loopVars[o]
			if o == nil || !isLoop || !g.isN(b) {
				bad[s] = true
			}
		}
		return true
	})
	for s := range cands {
		if !bad[s] {
			g.candSlice[s] = true
		}
	}
	g.copies()
}

// copies: `S := T` with T a candidate slice makes S one (the spelling a substituted helper leaves behind: S := helper() with
// `return T` in the helper), provided S is defined once and never appended to.
func (g *g14) copies() {
	defs := localDefs(g.info, g.body)
	for round := 0; round < 2; round++ {
		for o, d := range defs {
			if d == nil || g.candSlice[o] {
				continue
			}
			if src := identObj(g.info, d); src != nil && g.candSlice[src] {
				g.candSlice[o] = true
			}
		}
	}
}

func ruleG14(r *Run) {
	p := r.P
	pkg := p.Pkg("rpc/plugins/loadbalance")
	if pkg == nil {
		r.Undec("loadbalance", 0, "package not found")
		return
	}
	info := pkg.TypesInfo
	verified := map[*types.Func]bool{}
	// pass 1: getIndex functions return only in-range values
	var decls []*ast.FuncDecl
	for _, f := range pkg.Syntax {
		for _, d := range f.Decls {
			if fd, ok := d.(*ast.FuncDecl); ok && fd.Body != nil {
				decls = append(decls, fd)
			}
		}
	}
	for _, fd := range decls {
		if fd.Name.Name != "getIndex" {
			continue
		}
		fobj, _ := info.Defs[fd.Name].(*types.Func)
		key := "returns of " + p.DeclName(fd)
		// the atomic wrap-around form (G10) takes n as a parameter: accept `return i` under i < n and 0
		g := &g14{p: p, info: info, body: fd.Body, getIndex: verified}
		g.prepare()
		for _, pv := range paramsOf(info, fd.Type) {
			if pv != nil && pv.Name() == "n" {
				g.nObjs[pv] = true
			}
		}
		parents := parentMap(fd.Body)
		ok, nRet := true, 0
		why := ""
		ast.Inspect(fd.Body, func(n ast.Node) bool {
			ret, isR := n.(*ast.ReturnStmt)
			if !isR || len(ret.Results) != 1 {
				return true
			}
			nRet++
			e := ret.Results[0]
			if g.inRange(e, 0) {
				return true
			}
			// return i under an enclosing `i < n`
			if o := identObj(info, e); o != nil {
				for _, fc := range collectFacts(parents, ret) {
					if be, isB := fc.e.(*ast.BinaryExpr); isB && !fc.neg && be.Op == token.LSS && identObj(info, be.X) == o && g.isN(be.Y) {
						return true
					}
				}
			}
			ok = false
			why = types.ExprString(e) + " at " + p.Rel(ret.Pos())
			return true
		})
		if ok && nRet > 0 {
			verified[fobj] = true
			r.Ok(key, fd.Pos(), fmt.Sprintf("%d returns, all in 0..n-1 by construction", nRet))
		} else {
			r.Viol(key, fd.Pos(), "a value returned as server index is not in 0..n-1 by construction ("+why+"): an out-of-range index panics the call or picks no configured server")
		}
	}
	// pass 2: every URLs[..] / urls[..] / actives[..] index expression in a Handler
	for _, fd := range decls {
		if fd.Name.Name != "Handler" {
			continue
		}
		g := &g14{p: p, info: info, body: fd.Body, getIndex: verified}
		g.prepare()
		n := 0
		ast.Inspect(fd.Body, func(m ast.Node) bool {
			ie, ok := m.(*ast.IndexExpr)
			if !ok {
				return true
			}
			isServer := isURLsExpr(info, ie.X)
			if fv := fieldOf(info, ie.X); fv != nil && (fv.Name() == "actives" || fv.Name() == "effectiveWeights") {
				isServer = true
			}
			if !isServer {
				return true
			}
			n++
			key := fmt.Sprintf("server index %s in %s #%d", types.ExprString(ie), p.DeclName(fd), n)
			if g.inRange(ie.Index, 0) {
				r.Ok(key, ie.Pos(), "index in 0..n-1 by construction")
			} else {
				r.Viol(key, ie.Pos(), fmt.Sprintf("the index %s is not in 0..n-1 by construction (not 0, a loop variable < n, rand.Intn(n), %% n, n-1, a verified getIndex result or an in-range candidate): the balancer can select a server that is not configured", types.ExprString(ie.Index)))
			}
			return true
		})
	}
}

// ---------------------------------------------------------------------------------------

func ruleG13(r *Run) {
	p := r.P
	fd, pkg := p.DeclOf("rpc/core", "SeparatePluginHandlers")
	if fd == nil {
		r.Undec("SeparatePluginHandlers", 0, "not found")
		return
	}
	info := pkg.TypesInfo
	var ts *ast.TypeSwitchStmt
	ast.Inspect(fd.Body, func(n ast.Node) bool {
		if x, ok := n.(*ast.TypeSwitchStmt); ok {
			ts = x
		}
		return true
	})
	if ts == nil {
		r.Undec("classification switch", fd.Pos(), "no type switch")
		return
	}
	// expected: case type name -> which result lists are appended to
	want := map[string][2]bool{ // {invoke, io}
		"InvokeHandler": {true, false}, "IOHandler": {false, true}, "plugin": {true, true}, "invokePlugin": {true, false}, "ioPlugin": {false, true},
	}
	seen := map[string]bool{}
	var invokeT, ioT types.Type
	if o := pkg.Types.Scope().Lookup("InvokeHandler"); o != nil {
		invokeT = o.Type()
	}
	if o := pkg.Types.Scope().Lookup("IOHandler"); o != nil {
		ioT = o.Type()
	}
	hasPanicDefault := false
	for _, cs := range ts.Body.List {
		cc := cs.(*ast.CaseClause)
		if cc.List == nil {
			for _, s := range cc.Body {
				ast.Inspect(s, func(m ast.Node) bool {
					if c, ok := m.(*ast.CallExpr); ok && IsBuiltin(info, c, "panic") {
						hasPanicDefault = true
					}
					return true
				})
			}
			continue
		}
		if len(cc.List) != 1 {
			continue
		}
		name := types.ExprString(cc.List[0])
		w, known := want[name]
		if !known {
			continue
		}
		seen[name] = true
		var got [2]bool
		typed := true
		for _, s := range cc.Body {
			if as, ok := s.(*ast.AssignStmt); ok && len(as.Lhs) == 1 && len(as.Rhs) == 1 {
				lo := identObj(info, as.Lhs[0])
				call, isCall := ast.Unparen(as.Rhs[0]).(*ast.CallExpr)
				if lo == nil || !isCall || !IsBuiltin(info, call, "append") || len(call.Args) != 2 {
					continue
				}
				var wantT types.Type
				switch lo.Name() {
				case "invokeHandlers":
					got[0] = true
					wantT = invokeT
				case "ioHandlers":
					got[1] = true
					wantT = ioT
				default:
					continue
				}
				if tv, ok := info.Types[call.Args[1]]; !ok || wantT == nil || !types.Identical(types.Unalias(tv.Type), types.Unalias(wantT)) {
					typed = false
				}
			}
		}
		if !typed {
			r.Viol("plugin form "+name+" goes to the right list", cc.Pos(), "the value appended for plugin form "+name+" does not have the handler type of the list it is appended to: the manager's type assertion fails or the wrong hook runs")
			continue
		}
		r.Check(got == w, "plugin form "+name+" goes to the right list", cc.Pos(), fmt.Sprintf("invoke=%v io=%v", got[0], got[1]), fmt.Sprintf("a handler of form %s is appended to invoke=%v io=%v (expected invoke=%v io=%v): it is installed on the wrong chain or only half of a plugin is installed", name, got[0], got[1], w[0], w[1]))
	}
	for name := range want {
		if !seen[name] {
			r.Viol("plugin form "+name+" goes to the right list", ts.Pos(), "no clause for plugin form "+name)
		}
	}
	r.Check(hasPanicDefault, "unknown plugin forms are rejected", ts.Pos(), "default: panic", "an invalid plugin value is silently ignored instead of rejected")
}

func ruleG1b(r *Run) {
	p := r.P
	for _, fn := range []string{"FailoverConfig", "FailtryConfig"} {
		key := "retry counter in rpc/plugins/cluster." + fn
		fd, pkg := p.DeclOf("rpc/plugins/cluster", fn)
		if fd == nil {
			r.Undec(key, 0, "not found")
			continue
		}
		info := pkg.TypesInfo
		// retried := <ctx>.GetInt("retried") + 1 ; <ctx>.Set("retried", retried) - in the function itself or in a helper it calls
		bodies := []*ast.BlockStmt{fd.Body}
		ast.Inspect(fd.Body, func(n ast.Node) bool {
			if c, ok := n.(*ast.CallExpr); ok {
				if d, dpkg := p.calleeDecl(info, c); d != nil && dpkg == pkg {
					bodies = append(bodies, d.Body)
				}
			}
			return true
		})
		okPair := false
		for _, body := range bodies {
			var robj types.Object
			ast.Inspect(body, func(n ast.Node) bool {
				as, ok := n.(*ast.AssignStmt)
				if !ok || len(as.Lhs) != 1 || len(as.Rhs) != 1 {
					return true
				}
				be, ok := ast.Unparen(as.Rhs[0]).(*ast.BinaryExpr)
				if !ok || be.Op != token.ADD {
					return true
				}
				call, ok := ast.Unparen(be.X).(*ast.CallExpr)
				if !ok || methodName(call) != "GetInt" || len(call.Args) < 1 {
					return true
				}
				if lit, ok := call.Args[0].(*ast.BasicLit); ok && lit.Value == `"retried"` {
					if c, ok := intConst(info, be.Y); ok && c == 1 {
						robj = identObj(info, as.Lhs[0])
					}
				}
				return true
			})
			stored := false
			ast.Inspect(body, func(n ast.Node) bool {
				if call, ok := n.(*ast.CallExpr); ok && methodName(call) == "Set" && len(call.Args) == 2 {
					if lit, ok := call.Args[0].(*ast.BasicLit); ok && lit.Value == `"retried"` && identObj(info, call.Args[1]) == robj && robj != nil {
						stored = true
					}
				}
				return true
			})
			if robj != nil && stored {
				okPair = true
				// ... on EVERY path: the store is a statement of the callback's own block and no return comes before it
				bp := parentMap(body)
				ast.Inspect(body, func(n ast.Node) bool {
					call, ok := n.(*ast.CallExpr)
					if !ok || methodName(call) != "Set" || len(call.Args) != 2 || identObj(info, call.Args[1]) != robj {
						return true
					}
					if lit, ok := call.Args[0].(*ast.BasicLit); !ok || lit.Value != `"retried"` {
						return true
					}
					// the function (literal) the store belongs to
					var fbody *ast.BlockStmt
					var stmt ast.Node = call
					for q := bp[call]; q != nil; q = bp[q] {
						if fl, ok := q.(*ast.FuncLit); ok {
							fbody = fl.Body
							break
						}
						if _, ok := q.(ast.Stmt); ok && stmt == ast.Node(call) {
							stmt = q
						}
					}
					if fbody == nil {
						fbody = body
					}
					why := ""
					if bp[stmt] != ast.Node(fbody) {
						why = "the store is conditional"
					}
					ast.Inspect(fbody, func(k ast.Node) bool {
						if ret, ok := k.(*ast.ReturnStmt); ok && ret.Pos() < call.Pos() {
							why = "a return at " + p.Rel(ret.Pos()) + " comes before the store"
						}
						return true
					})
					if why != "" {
						r.Viol(key+" on every path", call.Pos(), "OnRetry does not store the advanced `retried` item on every path ("+why+"): on that path the counter stands still, `retried < retry` stays true and an idempotent call is re-sent without end")
					} else {
						r.Ok(key+" on every path", call.Pos(), "the store is unconditional and precedes every return")
					}
					return true
				})
			}
		}
		r.Check(okPair, key, fd.Pos(), `retried := GetInt("retried") + 1; Set("retried", retried)`, "OnRetry no longer increments the call's `retried` item by exactly one and stores it back: the budget `retried < retry` is never reached (endless retries) or skipped")
	}
	ruleG1bRetry(r)
}
func ruleG1bRetry(r *Run) {
	p := r.P
	fd, pkg := p.DeclOf("rpc/plugins/cluster", "Cluster.Handler")
	key := "the retry is reached only through OnRetry in rpc/plugins/cluster.Cluster.Handler"
	if fd == nil {
		r.Undec(key, 0, "not found")
		return
	}
	info := pkg.TypesInfo
	self, _ := info.Defs[fd.Name].(*types.Func)
	parents := parentMap(fd.Body)
	var rec *ast.CallExpr
	ast.Inspect(fd.Body, func(n ast.Node) bool {
		if c, ok := n.(*ast.CallExpr); ok && Callee(info, c) == self {
			rec = c
		}
		return true
	})
	if rec == nil {
		r.Undec(key, fd.Pos(), "no recursive retry call")
		return
	}
	nonNil := false
	for _, fc := range collectFacts(parents, rec) {
		be, ok := fc.e.(*ast.BinaryExpr)
		if !ok {
			continue
		}
		if fv := fieldOf(info, be.X); fv == nil || fv.Name() != "OnRetry" {
			continue
		}
		if (be.Op == token.NEQ && !fc.neg) || (be.Op == token.EQL && fc.neg) {
			nonNil = true
		}
	}
	called := false
	ast.Inspect(fd.Body, func(n ast.Node) bool {
		if c, ok := n.(*ast.CallExpr); ok && c.Pos() < rec.Pos() {
			if fv := fieldOf(info, c.Fun); fv != nil && fv.Name() == "OnRetry" {
				// unconditional with respect to the retry: the call is not nested in an if that the retry is outside of
				okDom := true
				for n2 := parents[ast.Node(c)]; n2 != nil; n2 = parents[n2] {
					if ifs, ok := n2.(*ast.IfStmt); ok {
						inside := rec.Pos() >= ifs.Pos() && rec.End() <= ifs.End()
						// a call in the init statement or the condition runs whenever the if is reached
						inHead := c.End() <= ifs.Body.Pos()
						if !inside && !inHead {
							okDom = false
						}
					}
				}
				if okDom {
					called = true
				}
			}
		}
		return true
	})
	r.Check(nonNil && called, key, rec.Pos(), "c.OnRetry != nil and called before the retry", "the retry is re-sent on a path where c.OnRetry is nil or was not called: the `retried` item is advanced only inside the OnRetry callbacks, so with a configuration without OnRetry (FailfastConfig, a hand-written Config) an idempotent call with a retry budget is re-sent without limit")
}

func ruleP7(r *Run) {
	p := r.P
	for _, tr := range []string{"rpc/socket", "rpc/udp", "rpc/websocket"} {
		pkg := p.Pkg(tr)
		if pkg == nil {
			continue
		}
		info := pkg.TypesInfo
		for _, fn := range []string{"conn.Send", "conn.Receive"} {
			fd, _ := p.DeclOf(tr, fn)
			key := fmt.Sprintf("%s.%s defers Exit with its error", tr, fn)
			if fd == nil {
				r.Undec(key, 0, "not found")
				continue
			}
			ok := false
			if len(fd.Body.List) >= 2 {
				for _, s := range fd.Body.List[:2] {
					if d, isD := s.(*ast.DeferStmt); isD {
						ast.Inspect(d, func(m ast.Node) bool {
							if c, isC := m.(*ast.CallExpr); isC && methodName(c) == "Exit" {
								ok = true
							}
							return true
						})
					}
				}
			}
			r.Check(ok, key, fd.Pos(), "defer ... c.Exit(onExit, recover(), err)", "the loop no longer defers Exit as its first action: when it ends, the connection stays in the pool and pending calls are never failed")
		}
		if fd, _ := p.DeclOf(tr, "conn.Exit"); fd != nil {
			callsOnExit, closes := false, false
			var narrowed []string
			eparents := parentMap(fd.Body)
			eparams := paramsOf(info, fd.Type)
			ast.Inspect(fd.Body, func(m ast.Node) bool {
				if c, ok := m.(*ast.CallExpr); ok {
					if id, ok := ast.Unparen(c.Fun).(*ast.Ident); ok && id.Name == "onExit" {
						callsOnExit = true
					}
					if methodName(c) == "Close" {
						closes = true
						// Close(err) may depend on nothing but "there is an error": err != nil / e != nil
						for _, fc := range collectFacts(eparents, c) {
							okFact := false
							if be, isB := fc.e.(*ast.BinaryExpr); isB && (be.Op == token.NEQ && !fc.neg || be.Op == token.EQL && fc.neg) {
								if id, isID := ast.Unparen(be.Y).(*ast.Ident); isID && id.Name == "nil" {
									if o := identObj(info, be.X); o != nil {
										for _, pv := range eparams {
											if pv == o {
												okFact = true
											}
										}
									}
								}
							}
							if !okFact {
								narrowed = append(narrowed, types.ExprString(fc.e))
							}
						}
					}
				}
				return true
			})
			// onExit (leave the pool) comes first: while Close runs - it calls the user's OnClose and fails the pending calls -
			// the dying connection must not be handed to new calls
			var posOnExit, posClose token.Pos
			ast.Inspect(fd.Body, func(m ast.Node) bool {
				if c, ok := m.(*ast.CallExpr); ok {
					if id, ok := ast.Unparen(c.Fun).(*ast.Ident); ok && id.Name == "onExit" && posOnExit == 0 {
						posOnExit = c.Pos()
					}
					if methodName(c) == "Close" && posClose == 0 {
						posClose = c.Pos()
					}
				}
				return true
			})
			if posOnExit != 0 && posClose != 0 {
				r.Check(posOnExit < posClose, tr+".conn.Exit leaves the pool before it closes", fd.Pos(), "onExit() before Close(err)", "Exit closes the connection before it takes it out of the pool: a call issued while Close runs (the OnClose callback, the sweep of the pending calls) is put on the dead connection and fails with the error of the call that killed it")
			}
			r.Check(len(narrowed) == 0, tr+".conn.Exit closes on every error", fd.Pos(), "Close(err) depends only on err != nil", fmt.Sprintf("Exit skips Close(err) depending on %s: when a loop ends with such an error the connection is never closed and its pending calls are never failed - they wait for their own timeouts, OnClose never runs", strings.Join(narrowed, ", ")))
			r.Check(callsOnExit && closes, tr+".conn.Exit drops the connection and fails pending calls", fd.Pos(), "onExit() ... c.Close(err)", "Exit no longer runs onExit (pool removal) and Close(err) (failing pending calls)")
		}
		if fd, _ := p.DeclOf(tr, "Transport.getConn"); fd != nil {
			// the onExit literal: delete(trans.conns, key) and cancel()
			del, cancel, guarded, cancelAlways := false, false, false, false
			ast.Inspect(fd.Body, func(m ast.Node) bool {
				fl, ok := m.(*ast.FuncLit)
				if !ok {
					return true
				}
				parents := parentMap(fl.Body)
				// the pool bookkeeping may live in a helper method the literal calls: look there too
				roots := []ast.Node{fl.Body}
				ast.Inspect(fl.Body, func(k ast.Node) bool {
					if c, ok := k.(*ast.CallExpr); ok {
						if d, dpkg := p.calleeDecl(info, c); d != nil && dpkg.TypesInfo == info {
							roots = append(roots, d.Body)
							for kk, vv := range parentMap(d.Body) {
								parents[kk] = vv
							}
						}
					}
					return true
				})
				for _, root := range roots {
					ast.Inspect(root, func(k ast.Node) bool {
						if c, ok := k.(*ast.CallExpr); ok {
							if IsBuiltin(info, c, "delete") && len(c.Args) == 2 {
								if fv := fieldOf(info, c.Args[0]); fv != nil && fv.Name() == "conns" {
									del = true
									for _, fc := range collectFacts(parents, c) {
										be, isB := fc.e.(*ast.BinaryExpr)
										if !isB || fc.neg || be.Op != token.EQL {
											continue
										}
										for _, side := range [][2]ast.Expr{{be.X, be.Y}, {be.Y, be.X}} {
											if ie, isI := ast.Unparen(side[0]).(*ast.IndexExpr); isI && fieldOf(info, ie.X) == fv {
												if o := identObj(info, side[1]); o != nil && (o.Name() == "conn" || strings.HasSuffix(o.Type().String(), ".conn")) {
													guarded = true
												}
											}
										}
									}
								}
							}
							if id, ok := ast.Unparen(c.Fun).(*ast.Ident); ok {
								if v, ok := info.Uses[id].(*types.Var); ok && isNamed(v.Type(), "context", "CancelFunc") {
									cancel = true
									// not control-dependent on the pool-membership test: after Abort the connection is no longer in the pool
									dep := false
									for _, fc := range collectFacts(parents, c) {
										ast.Inspect(fc.e, func(x ast.Node) bool {
											if fv := fieldOf(info, exprOrNil(x)); fv != nil && fv.Name() == "conns" {
												dep = true
											}
											return true
										})
									}
									if !dep {
										cancelAlways = true
									}
								}
							}
						}
						return true
					})
				}
				return true
			})
			r.Check(del && cancel, tr+".Transport.getConn onExit removes the connection and cancels its loops", fd.Pos(), "delete(trans.conns, key); cancel()", "the connection's onExit no longer removes it from the pool and cancels its context: a dead connection is handed to later calls, or its goroutines never end")
			r.Check(cancelAlways || !cancel, tr+".Transport.getConn onExit cancels whether or not the connection is still pooled", fd.Pos(), "cancel() outside the pool-membership test", "onExit cancels the connection's context only if the connection is still in the pool: Abort empties the pool before it closes the connections, so their Send loops are never cancelled - one goroutine leaks per aborted connection")
			r.Check(guarded, tr+".Transport.getConn onExit removes only its own connection", fd.Pos(), "if trans.conns[key] == conn { delete }", "onExit deletes the pool entry without checking that it is still this connection: the second loop's exit removes a newer, healthy connection")
		}
		if fd, _ := p.DeclOf(tr, "conn.Close"); fd != nil {
			sweeps := false
			ast.Inspect(fd.Body, func(m ast.Node) bool {
				if c, ok := m.(*ast.CallExpr); ok && methodName(c) == "rangeAndClean" {
					sweeps = true
				}
				return true
			})
			// ... or the sweep written in place: the table swapped out and every entry of it sent to
			if !sweeps {
				if pk := p.Pkg(tr); pk != nil {
					sv := sweptValue(pk.TypesInfo, fd.Body)
					ast.Inspect(fd.Body, func(m ast.Node) bool {
						if ss, ok := m.(*ast.SendStmt); ok && sv[identObj(pk.TypesInfo, ss.Chan)] {
							sweeps = true
						}
						return true
					})
				}
			}
			r.Check(sweeps, tr+".conn.Close fails every pending call", fd.Pos(), "rangeAndClean(send error)", "Close no longer sweeps the pending table: callers waiting on a lost connection wait for their deadline")
		}
	}
	_ = strings.TrimSpace
	_ = packages.NeedName
}

// G10b (C16): failover moves to ANOTHER server.
func init() {
	register("G10b", "FailoverConfig's OnFailure never leaves the call on the server that has just failed: the URL it assigns is compared with the call's current URL (the rotation index is shared by all calls, so by itself it can come round to the failed server) and advanced once more when they are equal", 1, ruleG10b)
}

func ruleG10b(r *Run) {
	p := r.P
	fd, pkg := p.DeclOf("rpc/plugins/cluster", "FailoverConfig")
	key := "failover target differs from the failed server"
	if fd == nil {
		r.Undec(key, 0, "FailoverConfig not found")
		return
	}
	info := pkg.TypesInfo
	// the OnFailure literal: config.OnFailure = func(ctx) {...}
	var lit *ast.FuncLit
	ast.Inspect(fd.Body, func(n ast.Node) bool {
		as, ok := n.(*ast.AssignStmt)
		if !ok || len(as.Lhs) != 1 || len(as.Rhs) != 1 {
			return true
		}
		if fv := fieldOf(info, as.Lhs[0]); fv != nil && fv.Name() == "OnFailure" {
			lit, _ = ast.Unparen(as.Rhs[0]).(*ast.FuncLit)
		}
		return true
	})
	if lit == nil {
		r.Undec(key, fd.Pos(), "no OnFailure literal")
		return
	}
	ldefs := localDefs(info, lit.Body)
	var isCurURL func(e ast.Expr) bool
	isCurURL = func(e ast.Expr) bool {
		e = ast.Unparen(e)
		if fv := fieldOf(info, e); fv != nil && fv.Name() == "URL" {
			return true
		}
		// a local that holds the current URL, or its text
		if o := identObj(info, e); o != nil {
			if d, ok := ldefs[o]; ok && d != nil {
				return isCurURL(d)
			}
			// defined in an if/switch init: look for the definition
			found := false
			ast.Inspect(lit.Body, func(n ast.Node) bool {
				if as, ok := n.(*ast.AssignStmt); ok && as.Tok == token.DEFINE && len(as.Lhs) == len(as.Rhs) {
					for i, l := range as.Lhs {
						if id, ok := l.(*ast.Ident); ok && info.Defs[id] == o {
							if fv := fieldOf(info, as.Rhs[i]); fv != nil && fv.Name() == "URL" {
								found = true
							}
						}
					}
				}
				return true
			})
			return found
		}
		if c, ok := e.(*ast.CallExpr); ok && methodName(c) == "String" {
			if se, ok := ast.Unparen(c.Fun).(*ast.SelectorExpr); ok {
				return isCurURL(se.X)
			}
		}
		return false
	}
	byValue := false
	assigns, compares := false, false
	ast.Inspect(lit.Body, func(n ast.Node) bool {
		switch x := n.(type) {
		case *ast.AssignStmt:
			for _, l := range x.Lhs {
				if isCurURL(l) {
					assigns = true
				}
			}
		case *ast.BinaryExpr:
			if (x.Op == token.EQL || x.Op == token.NEQ) && (isCurURL(x.X) || isCurURL(x.Y)) {
				compares = true
				// by what the URL says (String(), or a field of it), not only by pointer
				if t := info.TypeOf(x.X); t != nil {
					if _, isPtr := t.Underlying().(*types.Pointer); !isPtr {
						byValue = true
					}
				}
			}
		}
		return true
	})
	if !assigns {
		r.Viol(key, lit.Pos(), "OnFailure no longer assigns the call's URL: failover does not move at all")
		return
	}
	if compares {
		r.Check(byValue, "failover recognises the failed server by its URL text", lit.Pos(), "compared by value (String())", "OnFailure compares the candidate with the call's current URL by pointer only: a load balancer installs its own *url.URL values for the same servers (MakeWeightedLoadBalance parses the URIs again), so behind it the comparison never matches and failover re-sends the call to the server that has just failed")
	}
	r.Check(compares, key, lit.Pos(), "candidate compared with the call's current URL", "OnFailure takes the next URL from the rotation index alone; the index is shared by all calls while every call starts at URLs[0], so with two servers every second failover selects the server that has just failed (run-confirmed: with retry:1 and the first server down, every second call fails although the second server is healthy)")
}
