package main

import (
	"fmt"
	"go/ast"
	"go/token"
	"go/types"

	"golang.org/x/tools/go/packages"
)

// W3 (C04): the length of a byte slice or string taken from the wire is wire-controlled (it may be
// empty: `i;`, input cut right after a tag). Indexing or slicing it with a constant needs a
// dominating length test. V6 (C04/C14): the decoder's input-mode invariant.

func init() {
	register("W3", "a []byte or string obtained from a Decoder read method (Until, UnsafeUntil, Next, UnsafeNext, Read*String*, Read*Bytes*, ...) is indexed or sliced with a constant only under a dominating test of its length that covers the constant (len(b) > k, len(b) == n, switch len(b) case n, k < len(b)); a variable index must be a range/counted-loop variable over the same value", 1, ruleW3)
	register("V6", "decoder input-mode invariant: reader == nil exactly when the whole input is in buf (ReadCount's bound and loadMore's EOF rely on it): every method that installs caller bytes as buf clears reader on every path; ResetBuffer (the pool-release reset) leaves reader nil on every path and drops a caller-owned buf; ResetReader resets the window", 4, ruleV6)
}

func ruleW3(r *Run) {
	p := r.P
	decT := p.LookupObj("io", "Decoder")
	if decT == nil {
		r.Undec("io.Decoder", 0, "type not found")
		return
	}
	isWireBytesCall := func(info *types.Info, e ast.Expr) bool {
		call, ok := ast.Unparen(e).(*ast.CallExpr)
		if !ok {
			return false
		}
		f := Callee(info, call)
		if f == nil {
			return false
		}
		sig := f.Type().(*types.Signature)
		if sig.Recv() == nil {
			return false
		}
		rt, _ := deref(sig.Recv().Type())
		if n, ok := rt.(*types.Named); !ok || n.Obj() != decT {
			return false
		}
		if sig.Results().Len() == 0 {
			return false
		}
		t := sig.Results().At(0).Type().Underlying()
		if b, ok := t.(*types.Basic); ok && b.Kind() == types.String {
			return true
		}
		if s, ok := t.(*types.Slice); ok {
			if b, ok := s.Elem().Underlying().(*types.Basic); ok && b.Kind() == types.Uint8 {
				return true
			}
		}
		return false
	}
	nSources := 0
	p.EachFunc(func(pkg *packages.Package, fd *ast.FuncDecl) {
		rel := p.RelPkg(pkg.Types)
		if rel != "io" && rel != "rpc/core" && rel != "rpc/codec/jsonrpc" {
			return
		}
		info := pkg.TypesInfo
		// wire locals: every assignment to them is a wire-bytes call (first result)
		wire := map[types.Object]bool{}
		other := map[types.Object]bool{}
		ast.Inspect(fd.Body, func(n ast.Node) bool {
			as, ok := n.(*ast.AssignStmt)
			if !ok {
				return true
			}
			if len(as.Rhs) == 1 && len(as.Lhs) >= 1 {
				if o := identObj(info, as.Lhs[0]); o != nil {
					if isWireBytesCall(info, as.Rhs[0]) {
						wire[o] = true
					} else if len(as.Lhs) == 1 {
						other[o] = true
					}
				}
				return true
			}
			for i, l := range as.Lhs {
				if o := identObj(info, l); o != nil && i < len(as.Rhs) {
					if isWireBytesCall(info, as.Rhs[i]) {
						wire[o] = true
					} else {
						other[o] = true
					}
				}
			}
			return true
		})
		for o := range other {
			delete(wire, o)
		}
		if len(wire) == 0 {
			return
		}
		nSources += len(wire)
		parents := parentMap(fd.Body)
		fname := p.DeclName(fd)
		nSite := 0
		lenOf := func(e ast.Expr, o types.Object) bool {
			c, ok := ast.Unparen(e).(*ast.CallExpr)
			return ok && IsBuiltin(info, c, "len") && identObj(info, c.Args[0]) == o
		}
		// minLen: the smallest length of o implied at node `at` (0 = nothing known)
		minLen := func(at ast.Node, o types.Object) int64 {
			best := int64(0)
			up := func(v int64) {
				if v > best {
					best = v
				}
			}
			for _, fc := range factsWithSwitch(parents, at) {
				be, ok := fc.e.(*ast.BinaryExpr)
				if !ok {
					continue
				}
				x, y, op := be.X, be.Y, be.Op
				if lenOf(y, o) { // k OP len  ->  len OP' k
					x, y = y, x
					switch op {
					case token.LSS:
						op = token.GTR
					case token.LEQ:
						op = token.GEQ
					case token.GTR:
						op = token.LSS
					case token.GEQ:
						op = token.LEQ
					}
				}
				if !lenOf(x, o) {
					continue
				}
				k, ok := intConst(info, y)
				if !ok {
					continue
				}
				if fc.neg {
					switch op {
					case token.LSS: // !(len < k) -> len >= k
						up(k)
					case token.LEQ: // !(len <= k) -> len > k
						up(k + 1)
					case token.EQL: // !(len == 0) -> len >= 1
						if k == 0 {
							up(1)
						}
					case token.NEQ: // !(len != k) -> len == k
						up(k)
					}
					continue
				}
				switch op {
				case token.GTR:
					up(k + 1)
				case token.GEQ:
					up(k)
				case token.EQL:
					up(k)
				case token.NEQ:
					if k == 0 {
						up(1)
					}
				}
			}
			// switch len(o) { case k: ...; default: ... }
			for n := parents[at]; n != nil; n = parents[n] {
				cc, ok := n.(*ast.CaseClause)
				if !ok {
					continue
				}
				sw, ok := parents[parents[cc]].(*ast.SwitchStmt)
				if !ok || sw.Tag == nil || !lenOf(sw.Tag, o) {
					continue
				}
				if cc.List != nil {
					lo := int64(-1)
					for _, e := range cc.List {
						k, ok := intConst(info, e)
						if !ok {
							lo = 0
							break
						}
						if lo < 0 || k < lo {
							lo = k
						}
					}
					up(lo)
					continue
				}
				// default: every listed constant is excluded
				excl := map[int64]bool{}
				for _, cs := range sw.Body.List {
					for _, e := range cs.(*ast.CaseClause).List {
						if k, ok := intConst(info, e); ok {
							excl[k] = true
						}
					}
				}
				m := int64(0)
				for excl[m] {
					m++
				}
				up(m)
			}
			return best
		}
		loopVarOver := func(idx ast.Expr, o types.Object) bool {
			io := identObj(info, idx)
			if io == nil {
				return false
			}
			for n := parents[idx]; n != nil; n = parents[n] {
				switch x := n.(type) {
				case *ast.RangeStmt:
					if identObj(info, x.Key) == io && identObj(info, x.X) == o {
						return true
					}
				case *ast.ForStmt:
					if be, ok := x.Cond.(*ast.BinaryExpr); ok && be.Op == token.LSS && identObj(info, be.X) == io && lenOf(be.Y, o) {
						return true
					}
				}
			}
			return false
		}
		ast.Inspect(fd.Body, func(n ast.Node) bool {
			switch x := n.(type) {
			case *ast.IndexExpr:
				o := identObj(info, x.X)
				if o == nil || !wire[o] {
					return true
				}
				nSite++
				key := fmt.Sprintf("index %s in %s #%d", types.ExprString(x), fname, nSite)
				if k, ok := intConst(info, x.Index); ok {
					r.Check(minLen(x, o) > k, key, x.Pos(), fmt.Sprintf("len(%s) > %d established", o.Name(), k), fmt.Sprintf("%s comes from the wire and may be shorter than %d bytes (an empty literal such as `i;`, or input that ends right after the tag): indexing it without a dominating length test panics with index out of range", o.Name(), k+1))
				} else {
					r.Check(loopVarOver(x.Index, o), key, x.Pos(), "loop variable over the same value", fmt.Sprintf("%s comes from the wire; the index %s is not a loop variable bounded by its length", o.Name(), types.ExprString(x.Index)))
				}
			case *ast.SliceExpr:
				o := identObj(info, x.X)
				if o == nil || !wire[o] {
					return true
				}
				nSite++
				key := fmt.Sprintf("slice %s in %s #%d", types.ExprString(x), fname, nSite)
				need := int64(0)
				okConst := true
				for _, b := range []ast.Expr{x.Low, x.High, x.Max} {
					if b == nil {
						continue
					}
					if k, ok := intConst(info, b); ok {
						if k > need {
							need = k
						}
					} else {
						okConst = false
					}
				}
				if !okConst {
					r.Ok(key, x.Pos(), "non-constant bound (decided by W1 when wire-derived)")
					return true
				}
				r.Check(minLen(x, o) >= need, key, x.Pos(), fmt.Sprintf("len(%s) >= %d established", o.Name(), need), fmt.Sprintf("%s comes from the wire and may be shorter than %d bytes: slicing it without a dominating length test panics", o.Name(), need))
			}
			return true
		})
	})
	r.Ok("wire byte/string locals scanned", 0, fmt.Sprintf("%d locals bound to Decoder read results", nSources))
}

func ruleV6(r *Run) {
	p := r.P
	pkg := p.Pkg("io")
	if pkg == nil {
		r.Undec("package io", 0, "not found")
		return
	}
	info := pkg.TypesInfo
	bufF, readerF := p.LookupField("io", "Decoder", "buf"), p.LookupField("io", "Decoder", "reader")
	headF, tailF := p.LookupField("io", "Decoder", "head"), p.LookupField("io", "Decoder", "tail")
	if bufF == nil || readerF == nil || headF == nil || tailF == nil {
		r.Undec("Decoder fields", 0, "buf/reader/head/tail not found")
		return
	}
	isNil := func(e ast.Expr) bool {
		id, ok := ast.Unparen(e).(*ast.Ident)
		return ok && id.Name == "nil" && info.Uses[id] == types.Universe.Lookup("nil")
	}
	// readerNilOnAllPaths: abstract walk; state = reader known nil
	var walkBlock func(list []ast.Stmt, st bool, exits *[]bool) (bool, bool) // (state, terminated)
	walkBlock = func(list []ast.Stmt, st bool, exits *[]bool) (bool, bool) {
		for _, s := range list {
			switch x := s.(type) {
			case *ast.AssignStmt:
				for i, l := range x.Lhs {
					if fieldOf(info, l) == readerF && i < len(x.Rhs) {
						st = isNil(x.Rhs[i])
					}
				}
			case *ast.ReturnStmt:
				*exits = append(*exits, st)
				return st, true
			case *ast.IfStmt:
				thenSt, elseSt := st, st
				if be, ok := ast.Unparen(x.Cond).(*ast.BinaryExpr); ok && fieldOf(info, be.X) == readerF && isNil(be.Y) {
					if be.Op == token.EQL {
						thenSt = true
					} else if be.Op == token.NEQ {
						elseSt = true
					}
				}
				t1, term1 := walkBlock(x.Body.List, thenSt, exits)
				t2, term2 := elseSt, false
				switch e := x.Else.(type) {
				case *ast.BlockStmt:
					t2, term2 = walkBlock(e.List, elseSt, exits)
				case *ast.IfStmt:
					t2, term2 = walkBlock([]ast.Stmt{e}, elseSt, exits)
				}
				switch {
				case term1 && term2:
					return st, true
				case term1:
					st = t2
				case term2:
					st = t1
				default:
					st = t1 && t2
				}
			case *ast.BlockStmt:
				var term bool
				if st, term = walkBlock(x.List, st, exits); term {
					return st, true
				}
			case *ast.ForStmt, *ast.RangeStmt, *ast.SwitchStmt, *ast.TypeSwitchStmt, *ast.SelectStmt:
				// any assignment to reader inside makes the state unknown unless it is nil
				ast.Inspect(x, func(m ast.Node) bool {
					if as, ok := m.(*ast.AssignStmt); ok {
						for i, l := range as.Lhs {
							if fieldOf(info, l) == readerF && !(i < len(as.Rhs) && isNil(as.Rhs[i])) {
								st = false
							}
						}
					}
					return true
				})
			}
		}
		return st, false
	}
	readerNilAtExit := func(fd *ast.FuncDecl) bool {
		var exits []bool
		st, term := walkBlock(fd.Body.List, false, &exits)
		if !term {
			exits = append(exits, st)
		}
		for _, e := range exits {
			if !e {
				return false
			}
		}
		return len(exits) > 0
	}
	nInstall := 0
	for _, file := range pkg.Syntax {
		for _, d := range file.Decls {
			fd, ok := d.(*ast.FuncDecl)
			if !ok || fd.Body == nil {
				continue
			}
			params := map[types.Object]bool{}
			for _, pv := range paramsOf(info, fd.Type) {
				if pv != nil {
					params[pv] = true
				}
			}
			installs := false
			composite := false
			ast.Inspect(fd.Body, func(n ast.Node) bool {
				switch x := n.(type) {
				case *ast.AssignStmt:
					for i, l := range x.Lhs {
						if fieldOf(info, l) == bufF && i < len(x.Rhs) {
							if o := identObj(info, x.Rhs[i]); o != nil && params[o] {
								installs = true
							}
						}
					}
				case *ast.CompositeLit:
					if tv, ok := info.Types[x]; ok {
						if dt, _ := deref(tv.Type); dt != nil {
							if nn, ok := dt.(*types.Named); ok && nn.Obj().Name() == "Decoder" && nn.Obj().Pkg() == pkg.Types {
								for _, el := range x.Elts {
									if kv, ok := el.(*ast.KeyValueExpr); ok {
										if id, ok := kv.Key.(*ast.Ident); ok && info.Uses[id] == types.Object(bufF) {
											if o := identObj(info, kv.Value); o != nil && params[o] {
												composite = true
												// a literal leaves reader zero unless it sets it
												for _, e2 := range x.Elts {
													if kv2, ok := e2.(*ast.KeyValueExpr); ok {
														if id2, ok := kv2.Key.(*ast.Ident); ok && info.Uses[id2] == types.Object(readerF) && !isNil(kv2.Value) {
															composite = false
															installs = true
														}
													}
												}
											}
										}
									}
								}
							}
						}
					}
				}
				return true
			})
			if composite {
				nInstall++
				r.Ok("bytes mode has no reader in "+p.DeclName(fd), fd.Pos(), "composite literal with buf and a zero reader")
			}
			if installs {
				nInstall++
				r.Check(readerNilAtExit(fd), "bytes mode has no reader in "+p.DeclName(fd), fd.Pos(), "reader = nil on every path", "the function installs caller-provided bytes as the decoder's buffer but does not clear reader on every path: a decoder that was used on a stream keeps the old reader, so ReadCount no longer bounds counts by the input length (a dozen bytes can allocate gigabytes) and a truncated input is completed by reading the stale stream into the caller's slice")
			}
		}
	}
	if nInstall == 0 {
		r.Undec("bytes-mode installers", 0, "no function assigns caller bytes to Decoder.buf")
	}
	if fd, _ := p.DeclOf("io", "Decoder.ResetBuffer"); fd != nil {
		r.Check(readerNilAtExit(fd), "pool release leaves no reader (Decoder.ResetBuffer)", fd.Pos(), "reader == nil at every exit", "ResetBuffer, which FreeDecoder relies on, can return with reader still set: the next user of the pooled decoder decodes bytes with a stale stream attached")
		// a caller-owned buffer is dropped: on the reader == nil branch buf = nil
		drops := false
		ast.Inspect(fd.Body, func(n ast.Node) bool {
			if as, ok := n.(*ast.AssignStmt); ok {
				for i, l := range as.Lhs {
					if fieldOf(info, l) == bufF && i < len(as.Rhs) && isNil(as.Rhs[i]) {
						drops = true
					}
				}
			}
			return true
		})
		r.Check(drops, "pool release drops the caller's input (Decoder.ResetBuffer)", fd.Pos(), "buf = nil in bytes mode", "ResetBuffer keeps the previous caller's input slice as the buffer: a later stream decode reads into it")
	} else {
		r.Undec("Decoder.ResetBuffer", 0, "not found")
	}
	if fd, _ := p.DeclOf("io", "Decoder.ResetReader"); fd != nil {
		h, t := false, false
		rparents := parentMap(fd.Body)
		ast.Inspect(fd.Body, func(n ast.Node) bool {
			if as, ok := n.(*ast.AssignStmt); ok {
				// unconditionally: a window kept on one path (the decoder was already reading a stream) hands the
				// leftover bytes of the previous stream to the new one
				uncond := len(collectFacts(rparents, as)) == 0
				for i, l := range as.Lhs {
					if i < len(as.Rhs) {
						if c, ok := intConst(info, as.Rhs[i]); ok && c == 0 && uncond {
							if fieldOf(info, l) == headF {
								h = true
							}
							if fieldOf(info, l) == tailF {
								t = true
							}
						}
					}
				}
			}
			return true
		})
		dropsBuf := false
		ast.Inspect(fd.Body, func(n ast.Node) bool {
			if as, ok := n.(*ast.AssignStmt); ok {
				for i, l := range as.Lhs {
					if fieldOf(info, l) == bufF && i < len(as.Rhs) && isNil(as.Rhs[i]) {
						dropsBuf = true
					}
				}
			}
			return true
		})
		r.Check(dropsBuf, "stream mode never reads into a caller-owned buffer (Decoder.ResetReader)", fd.Pos(), "buf = nil when the previous input was bytes", "ResetReader keeps the buffer of a previous bytes-mode use, which is the caller's input slice: the first refill reads the stream into that slice (overwriting the caller's data), and with an empty former input Read is called with a zero-length buffer forever")
		r.Check(h && t, "stream mode starts with an empty window (Decoder.ResetReader)", fd.Pos(), "head = 0; tail = 0 on every path", "ResetReader does not empty the window on every path: bytes left from the previous input (a stream that was read ahead of the decoded item) are decoded as the beginning of the new stream")
	} else {
		r.Undec("Decoder.ResetReader", 0, "not found")
	}
}
