package main

import (
	"fmt"
	"go/ast"
	"go/token"
	"go/types"
	"sort"
	"strings"

	"golang.org/x/tools/go/packages"
)

// L1 guarded-by (must-hold locksets), L2 atomic-only fields, L3 split read-modify-write,
// L4 publish-before-init.

func init() {
	register("L1", "every read of a lock-guarded field holds its guard (shared or exclusive) and every write holds it exclusively, on every path (must-hold lockset); constructor scope and helpers all of whose callers hold the guard are exempt; every other mutable unexported field of a mutex-bearing struct must be classified", 70, ruleL1)
	register("L2", "fields updated with sync/atomic are accessed only through sync/atomic calls (constructor literals exempt)", 8, ruleL2)
	register("L3", "no atomic Store whose value depends on an earlier atomic Load of the same field outside a compare-and-swap retry loop or a lock (lost update)", 3, ruleL3)
	register("L4", "a coder stored into a package-level registry before all its fields are assigned holds its own lock exclusively from before publication until after the assignments, and its readers take the lock", 2, ruleL4)
}

// guarded-by table (DESIGN.md L1): inferred from 'accessed under X in all but constructor sites',
// each entry confirmed by reading. pkg | type | field -> guard field ("" = embedded mutex)
var l1Table = []struct{ pkg, typ, field, guard string }{
	{"rpc/socket", "conn", "results", "lock"},
	{"rpc/udp", "conn", "results", "lock"},
	{"rpc/websocket", "conn", "results", "lock"},
	{"rpc/socket", "conn", "closed", "lock"},
	{"rpc/udp", "conn", "closed", "lock"},
	{"rpc/websocket", "conn", "closed", "lock"},
	{"rpc/socket", "Transport", "conns", "lock"},
	{"rpc/udp", "Transport", "conns", "lock"},
	{"rpc/websocket", "Transport", "conns", "lock"},
	{"rpc/core", "pluginManager", "handlers", "RWMutex"},
	{"rpc/core", "pluginManager", "handler", "RWMutex"},
	{"rpc/core", "Client", "cancelFuncs", "cancelLock"},
	{"rpc/mock", "agent", "handlers", "rwlock"},
	{"io", "structDecoder", "fields", "RWMutex"},
	{"io", "structEncoder", "fields", "RWMutex"},
	{"io", "structEncoder", "metadata", "RWMutex"},
	{"rpc/plugins/push", "MessageCache", "m", "l"},
	{"rpc/plugins/reverse", "callCache", "c", "Mutex"},
	{"rpc/plugins/reverse", "resultMap", "results", "Mutex"},
	{"rpc/plugins/loadbalance", "LeastActiveLoadBalance", "actives", "rwlock"},
	{"rpc/plugins/loadbalance", "WeightedLeastActiveLoadBalance", "actives", "rwlock"},
	{"rpc/plugins/loadbalance", "WeightedLeastActiveLoadBalance", "effectiveWeights", "rwlock"},
	{"rpc/plugins/loadbalance", "WeightedRandomLoadBalance", "effectiveWeights", "rwlock"},
	{"rpc/plugins/loadbalance", "WeightedRoundRobinLoadBalance", "index", "lock"},
	{"rpc/plugins/loadbalance", "WeightedRoundRobinLoadBalance", "currentWeight", "lock"},
	{"rpc/plugins/loadbalance", "NginxRoundRobinLoadBalance", "effectiveWeights", "lock"},
	{"rpc/plugins/loadbalance", "NginxRoundRobinLoadBalance", "currentWeights", "lock"},
}

// fields of mutex-bearing structs that no property anchors and whose access idiom the lockset
// engine does not model (one line of reason each)
var l1Unanchored = map[string]string{
	"rpc/http/fasthttp.cookieManager.store": "cookie jar, not anchored by any property; written inside a synchronous VisitAllCookie callback while locker is held by the caller",
}

type lockState struct {
	held map[*types.Var]int // 1 shared, 2 exclusive
}

func (s *lockState) Key() string {
	var ks []string
	for v, m := range s.held {
		ks = append(ks, fmt.Sprintf("%s@%d:%d", v.Name(), v.Pos(), m))
	}
	sort.Strings(ks)
	return strings.Join(ks, ",")
}
func (s *lockState) Copy() PState {
	n := &lockState{held: make(map[*types.Var]int, len(s.held))}
	for k, v := range s.held {
		n.held[k] = v
	}
	return n
}

func isSyncType(t types.Type, name string) bool { return isNamed(t, "sync", name) }

// lockOp recognises x.Lock()/Unlock()/RLock()/RUnlock() on a sync.Mutex/RWMutex FIELD and
// returns the field and the operation.
func lockOp(info *types.Info, call *ast.CallExpr) (*types.Var, string) {
	se, ok := ast.Unparen(call.Fun).(*ast.SelectorExpr)
	if !ok {
		return nil, ""
	}
	sel, ok := info.Selections[se]
	if !ok || sel.Kind() != types.MethodVal {
		return nil, ""
	}
	f, ok := sel.Obj().(*types.Func)
	if !ok || f.Pkg() == nil || f.Pkg().Path() != "sync" {
		return nil, ""
	}
	switch f.Name() {
	case "Lock", "Unlock", "RLock", "RUnlock":
	default:
		return nil, ""
	}
	rt := recvType(f)
	if !isSyncType(rt, "Mutex") && !isSyncType(rt, "RWMutex") {
		return nil, ""
	}
	// explicit field: c.lock.Lock()
	if fv := fieldOf(info, se.X); fv != nil {
		return fv, f.Name()
	}
	// promoted through an embedded mutex: pm.Lock()
	if idx := sel.Index(); len(idx) >= 2 {
		t := sel.Recv()
		if pt, ok := t.Underlying().(*types.Pointer); ok {
			t = pt.Elem()
		}
		if st, ok := t.Underlying().(*types.Struct); ok {
			return st.Field(idx[0]), f.Name()
		}
	}
	return nil, ""
}

type fieldAccess struct {
	field *types.Var
	write bool
	pos   token.Pos
	base  types.Object // root identifier of the selector (for constructor scope)
}

// accessesIn lists guarded-field accesses syntactically inside n (not descending into
// function literals or nested statements bodies).
func accessesIn(info *types.Info, n ast.Node, guarded map[*types.Var]*types.Var) []fieldAccess {
	var out []fieldAccess
	writes := map[ast.Expr]bool{}
	markWrite := func(e ast.Expr) {
		// the field selector at the root of an lvalue: x.f, x.f[i], x.f[i].g ...
		for {
			e = ast.Unparen(e)
			switch y := e.(type) {
			case *ast.IndexExpr:
				e = y.X
				continue
			case *ast.StarExpr:
				e = y.X
				continue
			case *ast.SelectorExpr:
				if fv := fieldOf(info, y); fv != nil {
					if _, ok := guarded[fv]; ok {
						writes[y] = true
						return
					}
					e = y.X
					continue
				}
			}
			return
		}
	}
	switch s := n.(type) {
	case *ast.AssignStmt:
		for _, l := range s.Lhs {
			markWrite(l)
		}
	case *ast.IncDecStmt:
		markWrite(s.X)
	}
	ast.Inspect(n, func(m ast.Node) bool {
		switch y := m.(type) {
		case *ast.FuncLit:
			return false
		case *ast.BlockStmt:
			return false
		case *ast.CallExpr:
			if IsBuiltin(info, y, "delete") && len(y.Args) == 2 {
				markWrite(y.Args[0])
			}
		case *ast.UnaryExpr:
			if y.Op == token.AND {
				markWrite(y.X) // address taken: treat as write
			}
		}
		return true
	})
	ast.Inspect(n, func(m ast.Node) bool {
		switch y := m.(type) {
		case *ast.FuncLit:
			return false
		case *ast.BlockStmt:
			return false
		case *ast.SelectorExpr:
			if fv := fieldOf(info, y); fv != nil {
				if _, ok := guarded[fv]; ok {
					var base types.Object
					x := ast.Unparen(y.X)
					for {
						if se, ok := x.(*ast.SelectorExpr); ok {
							x = ast.Unparen(se.X)
							continue
						}
						break
					}
					if id, ok := x.(*ast.Ident); ok {
						base = info.Uses[id]
					}
					out = append(out, fieldAccess{fv, writes[y], y.Sel.Pos(), base})
				}
			}
		}
		return true
	})
	return out
}

// freshLocals: local variables bound to a freshly allocated object (&T{...}, T{...}, new(T))
func freshLocals(info *types.Info, body ast.Node) map[types.Object]bool {
	out := map[types.Object]bool{}
	for o, e := range localDefs(info, body) {
		e = ast.Unparen(e)
		if u, ok := e.(*ast.UnaryExpr); ok && u.Op == token.AND {
			e = ast.Unparen(u.X)
		}
		switch x := e.(type) {
		case *ast.CompositeLit:
			out[o] = true
		case *ast.CallExpr:
			if IsBuiltin(info, x, "new") {
				out[o] = true
			}
		}
	}
	return out
}

type l1Viol struct {
	acc  fieldAccess
	held string
}

func ruleL1(r *Run) {
	p := r.P
	guarded := map[*types.Var]*types.Var{}
	for _, e := range l1Table {
		f := p.LookupField(e.pkg, e.typ, e.field)
		g := p.LookupField(e.pkg, e.typ, e.guard)
		if f == nil || g == nil {
			r.Undec(fmt.Sprintf("table %s.%s.%s", e.pkg, e.typ, e.field), 0, "field or guard of the frozen guarded-by table not found (renamed?)")
			continue
		}
		guarded[f] = g
	}
	// ---- completeness: unclassified mutable unexported fields of mutex-bearing structs
	atomicFields := p.atomicFields()
	written := p.fieldsWrittenOutsideConstructors()
	for _, pkg := range p.Pkgs {
		sc := pkg.Types.Scope()
		for _, name := range sc.Names() {
			tn, ok := sc.Lookup(name).(*types.TypeName)
			if !ok {
				continue
			}
			st, ok := tn.Type().Underlying().(*types.Struct)
			if !ok {
				continue
			}
			hasMutex := false
			for i := 0; i < st.NumFields(); i++ {
				if isSyncType(st.Field(i).Type(), "Mutex") || isSyncType(st.Field(i).Type(), "RWMutex") {
					hasMutex = true
				}
			}
			if !hasMutex {
				continue
			}
			for i := 0; i < st.NumFields(); i++ {
				f := st.Field(i)
				key := fmt.Sprintf("classified %s.%s.%s", p.RelPkg(pkg.Types), name, f.Name())
				switch {
				case guarded[f] != nil:
					r.Ok(key, f.Pos(), "in the guarded-by table")
				case isSyncType(f.Type(), "Mutex") || isSyncType(f.Type(), "RWMutex") || isSyncType(f.Type(), "Once") || isSyncType(f.Type(), "WaitGroup") || isSyncType(f.Type(), "Map"):
					r.Ok(key, f.Pos(), "synchronisation object")
				case atomicFields[f]:
					r.Ok(key, f.Pos(), "atomic-only field (L2)")
				case f.Exported() || f.Embedded():
					r.Ok(key, f.Pos(), "exported/embedded configuration field (set by the user before use)")
				case func() bool { _, ok := f.Type().Underlying().(*types.Chan); return ok }():
					r.Ok(key, f.Pos(), "channel")
				case l1Unanchored[p.RelPkg(pkg.Types)+"."+name+"."+f.Name()] != "":
					r.Ok(key, f.Pos(), "frozen exemption: "+l1Unanchored[p.RelPkg(pkg.Types)+"."+name+"."+f.Name()])
				case !written[f]:
					r.Ok(key, f.Pos(), "never written outside constructors (immutable after publication)")
				default:
					r.Undec(key, f.Pos(), "mutable unexported field of a struct that carries a mutex is neither in the guarded-by table nor atomic: a new shared field cannot be accepted unclassified")
				}
			}
		}
	}
	// ---- lockset walk of every function; two passes for callers-hold helpers
	type fnRes struct {
		viols []l1Viol
		oks   int
	}
	callSites := map[*types.Func][]map[*types.Var]int{} // callee -> locksets at its call sites
	analyse := func(pkg *packages.Package, name string, body *ast.BlockStmt, entry map[*types.Var]int, record bool) fnRes {
		info := pkg.TypesInfo
		fresh := freshLocals(info, body)
		var res fnRes
		w := &Walk{Info: info}
		w.Event = func(w *Walk, ps PState, n ast.Node) []PState {
			st := ps.(*lockState)
			call, ok := n.(*ast.CallExpr)
			if !ok {
				return nil
			}
			if mv, op := lockOp(info, call); mv != nil {
				ns := st.Copy().(*lockState)
				switch op {
				case "Lock":
					ns.held[mv] = 2
				case "RLock":
					if ns.held[mv] < 1 {
						ns.held[mv] = 1
					}
				case "Unlock", "RUnlock":
					delete(ns.held, mv)
				}
				return []PState{ns}
			}
			if record {
				if f := Callee(info, call); f != nil && p.InRepo(f) {
					cp := map[*types.Var]int{}
					for k, v := range st.held {
						cp[k] = v
					}
					callSites[f] = append(callSites[f], cp)
				}
			}
			return nil
		}
		w.Visit = func(w *Walk, ps PState, n ast.Node) {
			st := ps.(*lockState)
			for _, a := range accessesIn(info, n, guarded) {
				if a.base != nil && fresh[a.base] {
					res.oks++ // constructor scope: object not yet reachable from another goroutine
					continue
				}
				g := guarded[a.field]
				need := 1
				if a.write {
					need = 2
				}
				if st.held[g] >= need {
					res.oks++
				} else {
					res.viols = append(res.viols, l1Viol{a, st.Key()})
				}
			}
		}
		init := &lockState{held: map[*types.Var]int{}}
		for k, v := range entry {
			init.held[k] = v
		}
		w.Run(body, init)
		if len(w.Undecided) > 0 {
			r.Undec("lockset "+name, body.Pos(), strings.Join(w.Undecided, "; "))
		}
		return res
	}
	type unit struct {
		pkg  *packages.Package
		name string
		body *ast.BlockStmt
		fn   *types.Func
	}
	var units []unit
	p.EachFunc(func(pkg *packages.Package, fd *ast.FuncDecl) {
		fobj, _ := pkg.TypesInfo.Defs[fd.Name].(*types.Func)
		units = append(units, unit{pkg, p.DeclName(fd), fd.Body, fobj})
		// function literals that are not deferred/immediately invoked run on their own
		k := 0
		ast.Inspect(fd.Body, func(n ast.Node) bool {
			switch x := n.(type) {
			case *ast.DeferStmt:
				if _, ok := x.Call.Fun.(*ast.FuncLit); ok {
					// replayed by the walker at the exits of the enclosing function
					for _, a := range x.Call.Args {
						_ = a
					}
					return true
				}
			case *ast.FuncLit:
				k++
				units = append(units, unit{pkg, fmt.Sprintf("%s$%d", p.DeclName(fd), k), x.Body, nil})
			}
			return true
		})
	})
	// deferred literals are walked twice (inline by the enclosing function and as a unit); a
	// unit that is a deferred literal is skipped
	deferred := map[*ast.BlockStmt]bool{}
	p.EachFunc(func(pkg *packages.Package, fd *ast.FuncDecl) {
		ast.Inspect(fd.Body, func(n ast.Node) bool {
			if d, ok := n.(*ast.DeferStmt); ok {
				if fl, ok := d.Call.Fun.(*ast.FuncLit); ok {
					deferred[fl.Body] = true
				}
			}
			if c, ok := n.(*ast.CallExpr); ok {
				if fl, ok := ast.Unparen(c.Fun).(*ast.FuncLit); ok {
					deferred[fl.Body] = true // immediately invoked: inline
				}
			}
			return true
		})
	})
	first := map[string]fnRes{}
	for _, u := range units {
		if deferred[u.body] {
			continue
		}
		first[u.name] = analyse(u.pkg, u.name, u.body, nil, true)
	}
	for _, u := range units {
		if deferred[u.body] {
			continue
		}
		res := first[u.name]
		if len(res.viols) > 0 && u.fn != nil && !u.fn.Exported() && len(callSites[u.fn]) > 0 {
			// helper all of whose callers hold the guard: entry lockset = intersection
			entry := map[*types.Var]int{}
			for k, v := range callSites[u.fn][0] {
				entry[k] = v
			}
			for _, cs := range callSites[u.fn][1:] {
				for k, v := range entry {
					if cs[k] < v {
						if cs[k] == 0 {
							delete(entry, k)
						} else {
							entry[k] = cs[k]
						}
					}
				}
			}
			if len(entry) > 0 {
				res = analyse(u.pkg, u.name, u.body, entry, false)
			}
		}
		perField := map[string]int{}
		for _, v := range res.viols {
			kind := "read"
			if v.acc.write {
				kind = "write"
			}
			fk := fmt.Sprintf("%s of %s in %s", kind, v.acc.field.Name(), u.name)
			perField[fk]++
			r.Viol(fmt.Sprintf("access %s #%d", fk, perField[fk]), v.acc.pos, fmt.Sprintf("%s of lock-guarded field %s without holding %s %s (held: {%s}): a concurrent goroutine can observe or corrupt the table", kind, v.acc.field.Name(), guarded[v.acc.field].Name(), map[bool]string{true: "exclusively", false: ""}[v.acc.write], v.held))
		}
		if res.oks > 0 && len(res.viols) == 0 {
			for i := 0; i < res.oks; i++ {
				r.Ok(fmt.Sprintf("accesses in %s #%d", u.name, i+1), u.body.Pos(), "guard held")
			}
		}
	}
}

// atomicFields: struct fields whose address is an operand of a sync/atomic call somewhere.
func (p *Prog) atomicFields() map[*types.Var]bool {
	out := map[*types.Var]bool{}
	p.EachFunc(func(pkg *packages.Package, fd *ast.FuncDecl) {
		info := pkg.TypesInfo
		ast.Inspect(fd.Body, func(n ast.Node) bool {
			call, ok := n.(*ast.CallExpr)
			if !ok {
				return true
			}
			f := Callee(info, call)
			if f == nil || f.Pkg() == nil || f.Pkg().Path() != "sync/atomic" || len(call.Args) == 0 {
				return true
			}
			if u, ok := ast.Unparen(call.Args[0]).(*ast.UnaryExpr); ok && u.Op == token.AND {
				if fv := fieldOf(info, u.X); fv != nil {
					out[fv] = true
				}
			}
			return true
		})
	})
	return out
}

// fieldsWrittenOutsideConstructors: fields assigned / index-assigned / deleted-from / appended
// through a base that is not a fresh local.
func (p *Prog) fieldsWrittenOutsideConstructors() map[*types.Var]bool {
	out := map[*types.Var]bool{}
	p.EachFunc(func(pkg *packages.Package, fd *ast.FuncDecl) {
		info := pkg.TypesInfo
		fresh := freshLocals(info, fd.Body)
		mark := func(e ast.Expr) {
			for {
				e = ast.Unparen(e)
				switch y := e.(type) {
				case *ast.IndexExpr:
					e = y.X
					continue
				case *ast.StarExpr:
					e = y.X
					continue
				case *ast.SelectorExpr:
					if fv := fieldOf(info, y); fv != nil {
						if id, ok := ast.Unparen(y.X).(*ast.Ident); ok && fresh[info.Uses[id]] {
							return
						}
						out[fv] = true
					}
				}
				return
			}
		}
		ast.Inspect(fd.Body, func(n ast.Node) bool {
			switch s := n.(type) {
			case *ast.AssignStmt:
				for _, l := range s.Lhs {
					mark(l)
				}
			case *ast.IncDecStmt:
				mark(s.X)
			case *ast.CallExpr:
				if IsBuiltin(info, s, "delete") && len(s.Args) == 2 {
					mark(s.Args[0])
				}
			case *ast.UnaryExpr:
				if s.Op == token.AND {
					if _, ok := ast.Unparen(s.X).(*ast.SelectorExpr); ok {
						mark(s.X)
					}
				}
			}
			return true
		})
	})
	return out
}

// ---------------------------------------------------------------------------------------
// L2

func ruleL2(r *Run) {
	p := r.P
	af := p.atomicFields()
	count := map[*types.Var]int{}
	p.EachFunc(func(pkg *packages.Package, fd *ast.FuncDecl) {
		info := pkg.TypesInfo
		parents := parentMap(fd.Body)
		fresh := freshLocals(info, fd.Body)
		ast.Inspect(fd.Body, func(n ast.Node) bool {
			se, ok := n.(*ast.SelectorExpr)
			if !ok {
				return true
			}
			fv := fieldOf(info, se)
			if fv == nil || !af[fv] {
				return true
			}
			count[fv]++
			key := fmt.Sprintf("atomic field %s.%s in %s #%d", p.RelPkg(fv.Pkg()), fv.Name(), p.DeclName(fd), count[fv])
			// &x.f as first operand of a sync/atomic call
			okUse := false
			if u, ok := parents[se].(*ast.UnaryExpr); ok && u.Op == token.AND {
				if call, ok := parents[u].(*ast.CallExpr); ok {
					if f := Callee(info, call); f != nil && f.Pkg() != nil && f.Pkg().Path() == "sync/atomic" {
						okUse = true
					}
				}
			}
			if id, ok := ast.Unparen(se.X).(*ast.Ident); ok && fresh[info.Uses[id]] {
				okUse = true
			}
			if okUse {
				r.Ok(key, se.Pos(), "accessed through sync/atomic")
			} else {
				r.Viol(key, se.Pos(), fmt.Sprintf("field %s is updated with sync/atomic elsewhere but accessed plainly here: the plain access races with the atomic updates", fv.Name()))
			}
			return true
		})
	})
}

// ---------------------------------------------------------------------------------------
// L3

func ruleL3(r *Run) {
	p := r.P
	p.EachFunc(func(pkg *packages.Package, fd *ast.FuncDecl) {
		info := pkg.TypesInfo
		// loads: x := atomic.LoadT(&f); stores: atomic.StoreT(&f, v)
		type ld struct {
			field *types.Var
			obj   types.Object
			pos   token.Pos
		}
		var loads []ld
		defs := localDefs(info, fd.Body)
		atomicCall := func(e ast.Expr) (*types.Var, string, *ast.CallExpr) {
			call, ok := ast.Unparen(e).(*ast.CallExpr)
			if !ok {
				return nil, "", nil
			}
			f := Callee(info, call)
			if f == nil || f.Pkg() == nil || f.Pkg().Path() != "sync/atomic" || len(call.Args) == 0 {
				return nil, "", nil
			}
			if u, ok := ast.Unparen(call.Args[0]).(*ast.UnaryExpr); ok && u.Op == token.AND {
				if fv := fieldOf(info, u.X); fv != nil {
					return fv, f.Name(), call
				}
			}
			return nil, "", nil
		}
		for o, e := range defs {
			if fv, name, _ := atomicCall(e); fv != nil && strings.HasPrefix(name, "Load") {
				loads = append(loads, ld{fv, o, e.Pos()})
			}
		}
		// variables assigned more than once (last = atomic.Load...) are not in defs; scan assigns too
		ast.Inspect(fd.Body, func(n ast.Node) bool {
			as, ok := n.(*ast.AssignStmt)
			if !ok || len(as.Lhs) != len(as.Rhs) {
				return true
			}
			for i, rhs := range as.Rhs {
				if fv, name, _ := atomicCall(rhs); fv != nil && strings.HasPrefix(name, "Load") {
					if o := identObj(info, as.Lhs[i]); o != nil {
						dup := false
						for _, l := range loads {
							if l.obj == o {
								dup = true
							}
						}
						if !dup {
							loads = append(loads, ld{fv, o, rhs.Pos()})
						}
					}
				}
			}
			return true
		})
		hasCAS := false
		usesLock := false
		ast.Inspect(fd.Body, func(n ast.Node) bool {
			if call, ok := n.(*ast.CallExpr); ok {
				if _, name, _ := atomicCall(call); strings.HasPrefix(name, "CompareAndSwap") {
					hasCAS = true
				}
				if mv, _ := lockOp(info, call); mv != nil {
					usesLock = true
				}
			}
			return true
		})
		assigns := map[types.Object][]ast.Expr{}
		ast.Inspect(fd.Body, func(n ast.Node) bool {
			switch as := n.(type) {
			case *ast.AssignStmt:
				if len(as.Lhs) == len(as.Rhs) {
					for i, l := range as.Lhs {
						if o := identObj(info, l); o != nil {
							assigns[o] = append(assigns[o], as.Rhs[i])
						}
					}
				}
			case *ast.ValueSpec:
				for i, id := range as.Names {
					if o := info.Defs[id]; o != nil && i < len(as.Values) {
						assigns[o] = append(assigns[o], as.Values[i])
					}
				}
			}
			return true
		})
		nStores := 0
		ast.Inspect(fd.Body, func(n ast.Node) bool {
			call, ok := n.(*ast.CallExpr)
			if !ok {
				return true
			}
			fv, name, _ := atomicCall(call)
			if fv == nil || !strings.HasPrefix(name, "Store") || len(call.Args) < 2 {
				return true
			}
			nStores++
			key := fmt.Sprintf("atomic store of %s in %s #%d", fv.Name(), p.DeclName(fd), nStores)
			// does the stored value depend (through any assignment to the locals it mentions,
			// flow-insensitively) on a load of fv that precedes the store?
			dep := false
			seenObj := map[types.Object]bool{}
			var visit func(e ast.Expr, depth int)
			visit = func(e ast.Expr, depth int) {
				if depth > 8 || dep {
					return
				}
				ast.Inspect(e, func(m ast.Node) bool {
					id, ok := m.(*ast.Ident)
					if !ok || dep {
						return !dep
					}
					o := info.Uses[id]
					if o == nil || seenObj[o] {
						return true
					}
					seenObj[o] = true
					for _, l := range loads {
						if l.obj == o && l.field == fv && l.pos < call.Pos() {
							dep = true
							return false
						}
					}
					for _, rhs := range assigns[o] {
						if rhs.Pos() < call.Pos() {
							visit(rhs, depth+1)
						}
					}
					return !dep
				})
			}
			visit(call.Args[1], 0)
			switch {
			case !dep:
				r.Ok(key, call.Pos(), "stored value does not depend on an earlier load of the same field")
			case hasCAS || usesLock:
				r.Ok(key, call.Pos(), "read-modify-write protected by a CAS loop or lock in this function")
			default:
				r.Viol(key, call.Pos(), fmt.Sprintf("atomic Store of %s writes a value computed from an earlier atomic Load of the same field with no compare-and-swap or lock in between: two concurrent callers both read the old value and one update is lost", fv.Name()))
			}
			return true
		})
	})
}

// ---------------------------------------------------------------------------------------
// L4

func ruleL4(r *Run) {
	p := r.P
	// every function of package io that hands a freshly allocated coder to a register* function
	// (the frozen pair below must be among them)
	pkgIO := p.Pkg("io")
	if pkgIO == nil {
		r.Undec("package io", 0, "not found")
		return
	}
	var ctors []*ast.FuncDecl
	for _, file := range pkgIO.Syntax {
		for _, d := range file.Decls {
			fd, ok := d.(*ast.FuncDecl)
			if !ok || fd.Body == nil {
				continue
			}
			fresh := freshLocals(pkgIO.TypesInfo, fd.Body)
			pub := false
			ast.Inspect(fd.Body, func(n ast.Node) bool {
				call, ok := n.(*ast.CallExpr)
				if !ok {
					return true
				}
				f := Callee(pkgIO.TypesInfo, call)
				if f == nil || !p.InRepo(f) || !strings.HasPrefix(f.Name(), "register") {
					return true
				}
				for _, a := range call.Args {
					if o := identObj(pkgIO.TypesInfo, a); o != nil && fresh[o] {
						pub = true
					}
				}
				return true
			})
			if pub {
				ctors = append(ctors, fd)
			}
		}
	}
	seen := map[string]bool{}
	for _, fd := range ctors {
		seen[fd.Name.Name] = true
	}
	for _, name := range []string{"newNamedStructDecoder", "newNamedStructEncoder"} {
		if !seen[name] {
			r.Undec("publish-before-init "+name, 0, "constructor not found among the publishing functions")
		}
	}
	for _, fd := range ctors {
		name := fd.Name.Name
		pkg := pkgIO
		key := "publish-before-init " + name
		info := pkg.TypesInfo
		fresh := freshLocals(info, fd.Body)
		// find the publication: a call passing a fresh local to a register* function (which stores
		// into a package-level sync.Map), and later assignments to that local's fields
		var pubPos token.Pos
		var obj types.Object
		ast.Inspect(fd.Body, func(n ast.Node) bool {
			call, ok := n.(*ast.CallExpr)
			if !ok || pubPos.IsValid() {
				return true
			}
			f := Callee(info, call)
			if f == nil || !p.InRepo(f) || !strings.HasPrefix(f.Name(), "register") {
				return true
			}
			for _, a := range call.Args {
				if o := identObj(info, a); o != nil && fresh[o] {
					pubPos, obj = call.Pos(), o
				}
			}
			return true
		})
		if !pubPos.IsValid() {
			r.Ok(key, fd.Pos(), "no publication of a fresh coder in this constructor")
			continue
		}
		var late []*ast.AssignStmt
		ast.Inspect(fd.Body, func(n ast.Node) bool {
			if as, ok := n.(*ast.AssignStmt); ok && as.Pos() > pubPos {
				for _, l := range as.Lhs {
					if se, ok := ast.Unparen(l).(*ast.SelectorExpr); ok && identObj(info, se.X) == obj {
						late = append(late, as)
					}
				}
			}
			return true
		})
		if len(late) == 0 {
			r.Ok(key, pubPos, "all fields assigned before publication")
			continue
		}
		// the object's own lock must be held exclusively at publication and at every late write:
		// walk with the lockset engine
		w := &Walk{Info: info}
		okAll := true
		why := ""
		w.Event = func(w *Walk, ps PState, n ast.Node) []PState {
			st := ps.(*lockState)
			call, ok := n.(*ast.CallExpr)
			if !ok {
				return nil
			}
			if mv, op := lockOp(info, call); mv != nil {
				ns := st.Copy().(*lockState)
				switch op {
				case "Lock":
					ns.held[mv] = 2
				case "RLock":
					ns.held[mv] = 1
				default:
					delete(ns.held, mv)
				}
				return []PState{ns}
			}
			if call.Pos() == pubPos {
				excl := false
				for _, m := range st.held {
					if m == 2 {
						excl = true
					}
				}
				if !excl {
					okAll, why = false, "the coder is published without holding its lock"
				}
			}
			return nil
		}
		w.Visit = func(w *Walk, ps PState, n ast.Node) {
			st := ps.(*lockState)
			for _, as := range late {
				if n == ast.Node(as) {
					excl := false
					for _, m := range st.held {
						if m == 2 {
							excl = true
						}
					}
					if !excl {
						okAll, why = false, "a field is assigned after publication without holding the coder's lock"
					}
				}
			}
		}
		w.Run(fd.Body, &lockState{held: map[*types.Var]int{}})
		// readers: every field assigned late must be in the guarded-by table (L1 checks its reads)
		for _, as := range late {
			for _, l := range as.Lhs {
				if fv := fieldOf(info, l); fv != nil {
					inTable := false
					for _, e := range l1Table {
						if p.LookupField(e.pkg, e.typ, e.field) == fv {
							inTable = true
						}
					}
					if !inTable && okAll {
						okAll, why = false, fmt.Sprintf("field %s is assigned after publication but its readers take no lock (not in the guarded-by table)", fv.Name())
					}
				}
			}
		}
		if okAll {
			r.Ok(key, pubPos, "published under the coder's own lock; late fields are lock-guarded")
		} else {
			r.Viol(key, pubPos, why+": a second goroutine that obtains the half-built coder from the registry uses empty field tables (first use of a type from several goroutines)")
		}
	}
}
