package main

import (
	"fmt"
	"go/ast"
	"go/token"
	"go/types"
	"sort"
	"strings"
)

// ENGINE A: a structured abstract interpreter over the typed AST. It enumerates the paths of
// one function body as a SET of abstract states (deduplicated by Key), replays deferred calls
// at every exit, and asks rule-specific hooks for the effect of calls, channel operations and
// branch conditions. Unrecognised control flow (goto, state explosion) makes the result
// Undecided, which the rules report as a failed obligation.

type PState interface {
	Key() string
	Copy() PState
}

type flowKind int

const (
	fNormal flowKind = iota
	fReturn
	fBreak
	fContinue
	fPanic // explicit panic(...) or a forked panic exit of a hazard call
)

type wstate struct {
	U      PState
	Defers []ast.Node // *ast.DeferStmt in registration order (persistent slice: never mutated in place)
	flow   flowKind
	label  string
	at     ast.Node              // node where the flow was produced (return statement, panic call ...)
	flags  map[types.Object]bool // boolean locals whose value is known on this path (assigned the literal true / false); never mutated in place
}

func (s *wstate) key() string {
	var b strings.Builder
	b.WriteString(s.U.Key())
	fmt.Fprintf(&b, "|f%d|%s|", s.flow, s.label)
	for _, d := range s.Defers {
		fmt.Fprintf(&b, "d%d,", d.Pos())
	}
	if s.flow != fNormal && s.at != nil {
		fmt.Fprintf(&b, "@%d", s.at.Pos())
	}
	if len(s.flags) > 0 {
		var fs []string
		for o, v := range s.flags {
			fs = append(fs, fmt.Sprintf("%d=%v", o.Pos(), v))
		}
		sort.Strings(fs)
		b.WriteString("|" + strings.Join(fs, ","))
	}
	return b.String()
}

// setFlag returns the state with the boolean local o known to be v (known == false: not known any more).
func (s *wstate) setFlag(o types.Object, v, known bool) *wstate {
	if _, had := s.flags[o]; !had && !known {
		return s
	}
	n := *s
	n.flags = map[types.Object]bool{}
	for k, x := range s.flags {
		n.flags[k] = x
	}
	if known {
		n.flags[o] = v
	} else {
		delete(n.flags, o)
	}
	return &n
}

func (s *wstate) with(u PState) *wstate {
	return &wstate{U: u, Defers: s.Defers, flow: s.flow, label: s.label, at: s.at, flags: s.flags}
}

type Walk struct {
	Info      *types.Info
	root      ast.Node // the body being walked (success flags of substituted helpers are looked up in it)
	MaxStates int

	// Event is called for every call expression (post-order: arguments first), channel
	// receive (<-ch as *ast.UnaryExpr), send (*ast.SendStmt), go statement (*ast.GoStmt),
	// assignment (*ast.AssignStmt, after its right-hand side), inc/dec (*ast.IncDecStmt),
	// range header (*ast.RangeStmt), function literal (*ast.FuncLit, not descended into),
	// select comm clause head (*ast.CommClause) and return (*ast.ReturnStmt, after results).
	// It returns the successor states (nil = state unchanged, empty non-nil = path infeasible).
	Event func(w *Walk, st PState, n ast.Node) []PState
	// Branch refines st under cond == val; ok=false means the branch is infeasible.
	Branch func(w *Walk, st PState, cond ast.Expr, val bool) (PState, bool)
	// Hazard reports whether a call may panic (forks a panic exit that runs the defers).
	Hazard func(w *Walk, st PState, call *ast.CallExpr) bool
	// Loop, when set and returning handled=true, replaces the default fixpoint for a loop.
	Loop func(w *Walk, st PState, loop ast.Stmt, body func(PState) []LoopOut) (out []PState, handled bool)
	// Exit is called for every way out of the function, after deferred calls were replayed.
	Exit func(w *Walk, st PState, kind flowKind, at ast.Node)
	// Visit is called with every top-level expression or simple statement just before it is
	// evaluated (conditions, assignments, call statements, range operands, return results ...),
	// so that a rule can inspect reads and writes at that program point.
	Visit func(w *Walk, st PState, n ast.Node)
	// InDefer is true while deferred calls are being replayed.
	InDefer bool

	Undecided []string
	nStates   int
}

// LoopOut is what one traversal of a loop body produced.
type LoopOut struct {
	St   PState
	Flow flowKind // fNormal (fell off the end / continue), fBreak, fReturn, fPanic
}

func (w *Walk) undec(format string, a ...interface{}) {
	w.Undecided = append(w.Undecided, fmt.Sprintf(format, a...))
}

func dedup(in []*wstate) []*wstate {
	if len(in) < 2 {
		return in
	}
	seen := map[string]bool{}
	var out []*wstate
	for _, s := range in {
		k := s.key()
		if !seen[k] {
			seen[k] = true
			out = append(out, s)
		}
	}
	sort.SliceStable(out, func(i, j int) bool { return out[i].key() < out[j].key() })
	return out
}

// Run walks a function body from the initial state.
func (w *Walk) Run(body *ast.BlockStmt, init PState) {
	if w.MaxStates == 0 {
		w.MaxStates = 512
	}
	w.root = body
	outs := w.block(body.List, []*wstate{{U: init}})
	for _, s := range outs {
		kind := s.flow
		if kind == fBreak || kind == fContinue {
			w.undec("break/continue escaping the function body")
			continue
		}
		w.finish(s, kind)
	}
}

// finish replays the deferred calls LIFO and reports the exit.
func (w *Walk) finish(s *wstate, kind flowKind) {
	states := []*wstate{{U: s.U, flow: fNormal}}
	saved := w.InDefer
	w.InDefer = true
	for i := len(s.Defers) - 1; i >= 0; i-- {
		d := s.Defers[i].(*ast.DeferStmt)
		var next []*wstate
		for _, st := range states {
			next = append(next, w.deferredCall(d, st)...)
		}
		states = dedup(next)
	}
	w.InDefer = saved
	for _, st := range states {
		if w.Exit != nil {
			w.Exit(w, st.U, kind, s.at)
		}
	}
}

func (w *Walk) deferredCall(d *ast.DeferStmt, st *wstate) []*wstate {
	// defer func() { ... }()  : walk the literal's body
	if fl, ok := ast.Unparen(d.Call.Fun).(*ast.FuncLit); ok {
		outs := w.block(fl.Body.List, []*wstate{{U: st.U}})
		var res []*wstate
		for _, o := range outs {
			// a return inside the deferred literal only leaves the literal
			res = append(res, &wstate{U: o.U, flags: o.flags})
		}
		return dedup(res)
	}
	// defer x.f(args): arguments were evaluated at registration; the call happens now
	return w.event(st, d.Call)
}

func (w *Walk) event(s *wstate, n ast.Node) []*wstate {
	if w.Event == nil {
		return []*wstate{s}
	}
	succ := w.Event(w, s.U, n)
	if succ == nil {
		return []*wstate{s}
	}
	var out []*wstate
	for _, u := range succ {
		out = append(out, s.with(u))
	}
	return out
}

// expr visits the sub-expressions of e in evaluation order and raises events.
func (w *Walk) expr(states []*wstate, e ast.Node) []*wstate {
	if e == nil || len(states) == 0 {
		return states
	}
	switch x := e.(type) {
	case *ast.FuncLit:
		var out []*wstate
		for _, s := range states {
			out = append(out, w.event(s, x)...)
		}
		return out
	case *ast.CallExpr:
		// immediately invoked literal: walk its body inline
		if fl, ok := ast.Unparen(x.Fun).(*ast.FuncLit); ok {
			for _, a := range x.Args {
				states = w.expr(states, a)
			}
			outs := w.block(fl.Body.List, states)
			var res []*wstate
			for _, o := range outs {
				if o.flow == fReturn {
					o = &wstate{U: o.U, Defers: o.Defers, flags: o.flags}
				}
				res = append(res, o)
			}
			return dedup(res)
		}
		states = w.expr(states, x.Fun)
		for _, a := range x.Args {
			states = w.expr(states, a)
		}
		var out []*wstate
		for _, s := range states {
			if IsBuiltin(w.Info, x, "panic") {
				for _, t := range w.event(s, x) {
					out = append(out, &wstate{U: t.U, Defers: t.Defers, flow: fPanic, at: x, flags: t.flags})
				}
				continue
			}
			if w.Hazard != nil && w.Hazard(w, s.U, x) {
				out = append(out, &wstate{U: s.U.Copy(), Defers: s.Defers, flow: fPanic, at: x, flags: s.flags})
			}
			out = append(out, w.event(s, x)...)
		}
		return dedup(out)
	case *ast.UnaryExpr:
		states = w.expr(states, x.X)
		if x.Op == token.ARROW {
			var out []*wstate
			for _, s := range states {
				out = append(out, w.event(s, x)...)
			}
			return out
		}
		return states
	case *ast.BinaryExpr:
		states = w.expr(states, x.X)
		return w.expr(states, x.Y)
	case *ast.ParenExpr:
		return w.expr(states, x.X)
	case *ast.SelectorExpr:
		return w.expr(states, x.X)
	case *ast.IndexExpr:
		states = w.expr(states, x.X)
		return w.expr(states, x.Index)
	case *ast.SliceExpr:
		states = w.expr(states, x.X)
		states = w.expr(states, x.Low)
		states = w.expr(states, x.High)
		return w.expr(states, x.Max)
	case *ast.StarExpr:
		return w.expr(states, x.X)
	case *ast.TypeAssertExpr:
		return w.expr(states, x.X)
	case *ast.CompositeLit:
		for _, el := range x.Elts {
			states = w.expr(states, el)
		}
		return states
	case *ast.KeyValueExpr:
		states = w.expr(states, x.Key)
		return w.expr(states, x.Value)
	}
	return states
}

func (w *Walk) visit(states []*wstate, n ast.Node) {
	if w.Visit == nil || n == nil {
		return
	}
	for _, s := range states {
		if s.flow == fNormal {
			w.Visit(w, s.U, n)
		}
	}
}

func (w *Walk) exprs(states []*wstate, es []ast.Expr) []*wstate {
	for _, e := range es {
		states = w.expr(states, e)
	}
	return states
}

func splitFlow(in []*wstate) (normal, other []*wstate) {
	for _, s := range in {
		if s.flow == fNormal {
			normal = append(normal, s)
		} else {
			other = append(other, s)
		}
	}
	return
}

func (w *Walk) block(list []ast.Stmt, states []*wstate) []*wstate {
	var done []*wstate
	cur := states
	for _, st := range list {
		n, o := splitFlow(cur)
		done = append(done, o...)
		if len(n) == 0 {
			cur = nil
			break
		}
		cur = w.stmt(st, n)
		w.nStates += len(cur)
		if len(cur) > w.MaxStates {
			w.undec("path-state set exceeded %d states at %v", w.MaxStates, st.Pos())
			cur = cur[:w.MaxStates]
		}
	}
	return dedup(append(done, cur...))
}

// branch refines states under cond==val, decomposing !, && and ||.
func (w *Walk) refine(s *wstate, cond ast.Expr, val bool) []*wstate {
	cond = ast.Unparen(cond)
	if u, ok := cond.(*ast.UnaryExpr); ok && u.Op == token.NOT {
		return w.refine(s, u.X, !val)
	}
	if b, ok := cond.(*ast.BinaryExpr); ok {
		if (b.Op == token.LAND && val) || (b.Op == token.LOR && !val) {
			var out []*wstate
			for _, t := range w.refine(s, b.X, val) {
				out = append(out, w.refine(t, b.Y, val)...)
			}
			return out
		}
		if b.Op == token.LAND || b.Op == token.LOR {
			// disjunction of outcomes: X decides, or X passes and Y decides
			var out []*wstate
			out = append(out, w.refine(s, b.X, val)...)
			for _, t := range w.refine(s, b.X, !val) {
				out = append(out, w.refine(t, b.Y, val)...)
			}
			return dedup(out)
		}
	}
	if id, isId := cond.(*ast.Ident); isId && w.Info != nil {
		if v, known := s.flags[w.Info.Uses[id]]; known && v != val {
			return nil // the flag has the other value on this path
		}
	}
	if w.Branch == nil {
		return []*wstate{s}
	}
	// the success flag of a substituted helper (inline.go) is true: none of the early exits that set it to false was taken
	if id, isId := cond.(*ast.Ident); isId && val && w.Info != nil && w.root != nil {
		if gs := inlinedFlagGuards(w.Info, w.root, w.Info.Uses[id]); len(gs) > 0 {
			cur := []*wstate{s}
			for _, g := range gs {
				var nx []*wstate
				for _, t := range cur {
					nx = append(nx, w.refine(t, g, false)...)
				}
				cur = nx
			}
			var out []*wstate
			for _, t := range cur {
				u, ok := w.Branch(w, t.U, cond, val)
				switch {
				case !ok:
				case u == nil:
					out = append(out, t)
				default:
					out = append(out, t.with(u))
				}
			}
			return dedup(out)
		}
	}
	u, ok := w.Branch(w, s.U, cond, val)
	if !ok {
		return nil
	}
	if u == nil {
		return []*wstate{s}
	}
	return []*wstate{s.with(u)}
}

func (w *Walk) refineAll(states []*wstate, cond ast.Expr, val bool) []*wstate {
	var out []*wstate
	for _, s := range states {
		out = append(out, w.refine(s, cond, val)...)
	}
	return dedup(out)
}

func (w *Walk) stmt(st ast.Stmt, states []*wstate) []*wstate {
	switch x := st.(type) {
	case nil:
		return states
	case *ast.BlockStmt:
		return w.block(x.List, states)
	case *ast.ExprStmt:
		w.visit(states, x)
		return w.expr(states, x.X)
	case *ast.AssignStmt:
		w.visit(states, x)
		states = w.exprs(states, x.Rhs)
		for _, l := range x.Lhs {
			if _, ok := l.(*ast.Ident); !ok {
				states = w.expr(states, l)
			}
		}
		n, o := splitFlow(states)
		var out []*wstate
		for _, s := range n {
			// boolean locals assigned the literal true / false are known on this path; any other assignment forgets them
			if w.Info != nil {
				for i, l := range x.Lhs {
					id, isId := l.(*ast.Ident)
					if !isId || id.Name == "_" {
						continue
					}
					obj := w.Info.Defs[id]
					if obj == nil {
						obj = w.Info.Uses[id]
					}
					if obj == nil {
						continue
					}
					if b, isB := obj.Type().Underlying().(*types.Basic); !isB || b.Kind() != types.Bool {
						continue
					}
					if len(x.Lhs) != len(x.Rhs) {
						s = s.setFlag(obj, false, false)
						continue
					}
					rhs, _ := ast.Unparen(x.Rhs[i]).(*ast.Ident)
					switch {
					case rhs != nil && (rhs.Name == "true" || rhs.Name == "false") && w.Info.Uses[rhs] != nil && w.Info.Uses[rhs].Parent() == types.Universe:
						s = s.setFlag(obj, rhs.Name == "true", true)
					case rhs != nil && w.Info.Uses[rhs] == obj:
						// flag = flag
					default:
						s = s.setFlag(obj, false, false)
					}
				}
			}
			out = append(out, w.event(s, x)...)
		}
		return append(out, o...)
	case *ast.IncDecStmt:
		w.visit(states, x)
		var out []*wstate
		for _, s := range states {
			out = append(out, w.event(s, x)...)
		}
		return out
	case *ast.DeclStmt:
		w.visit(states, x)
		if gd, ok := x.Decl.(*ast.GenDecl); ok {
			for _, sp := range gd.Specs {
				if vs, ok := sp.(*ast.ValueSpec); ok {
					states = w.exprs(states, vs.Values)
					n, o := splitFlow(states)
					var out []*wstate
					for _, s := range n {
						out = append(out, w.event(s, vs)...)
					}
					states = append(out, o...)
				}
			}
		}
		return states
	case *ast.SendStmt:
		w.visit(states, x)
		states = w.expr(states, x.Chan)
		states = w.expr(states, x.Value)
		n, o := splitFlow(states)
		var out []*wstate
		for _, s := range n {
			out = append(out, w.event(s, x)...)
		}
		return append(out, o...)
	case *ast.GoStmt:
		w.visit(states, x)
		for _, a := range x.Call.Args {
			states = w.expr(states, a)
		}
		var out []*wstate
		for _, s := range states {
			out = append(out, w.event(s, x)...)
		}
		return out
	case *ast.DeferStmt:
		w.visit(states, x)
		for _, a := range x.Call.Args {
			states = w.expr(states, a)
		}
		var out []*wstate
		for _, s := range states {
			for _, t := range w.event(s, x) {
				nd := make([]ast.Node, len(t.Defers)+1)
				copy(nd, t.Defers)
				nd[len(t.Defers)] = x
				out = append(out, &wstate{U: t.U, Defers: nd, flags: t.flags})
			}
		}
		return out
	case *ast.ReturnStmt:
		w.visit(states, x)
		states = w.exprs(states, x.Results)
		n, o := splitFlow(states)
		var out []*wstate
		for _, s := range n {
			for _, t := range w.event(s, x) {
				out = append(out, &wstate{U: t.U, Defers: t.Defers, flow: fReturn, at: x, flags: t.flags})
			}
		}
		return append(out, o...)
	case *ast.BranchStmt:
		var out []*wstate
		lbl := ""
		if x.Label != nil {
			lbl = x.Label.Name
		}
		for _, s := range states {
			switch x.Tok {
			case token.BREAK:
				out = append(out, &wstate{U: s.U, Defers: s.Defers, flow: fBreak, label: lbl, at: x, flags: s.flags})
			case token.CONTINUE:
				out = append(out, &wstate{U: s.U, Defers: s.Defers, flow: fContinue, label: lbl, at: x, flags: s.flags})
			case token.FALLTHROUGH:
				w.undec("fallthrough at %v", x.Pos())
				out = append(out, s)
			default:
				w.undec("goto at %v", x.Pos())
			}
		}
		return out
	case *ast.LabeledStmt:
		outs := w.stmtLabeled(x.Stmt, states, x.Label.Name)
		return outs
	case *ast.IfStmt:
		states = w.stmt(x.Init, states)
		n, o := splitFlow(states)
		w.visit(n, x.Cond)
		n = w.expr(n, x.Cond)
		n2, o2 := splitFlow(n)
		o = append(o, o2...)
		thenS := w.refineAll(n2, x.Cond, true)
		elseS := w.refineAll(n2, x.Cond, false)
		out := w.block(x.Body.List, thenS)
		if x.Else != nil {
			out = append(out, w.stmt(x.Else, elseS)...)
		} else {
			out = append(out, elseS...)
		}
		return dedup(append(out, o...))
	case *ast.SwitchStmt:
		return w.switchStmt(x, states, "")
	case *ast.TypeSwitchStmt:
		return w.typeSwitch(x, states, "")
	case *ast.SelectStmt:
		return w.selectStmt(x, states, "")
	case *ast.ForStmt, *ast.RangeStmt:
		return w.loop(x, states, "")
	case *ast.EmptyStmt:
		return states
	}
	w.undec("unsupported statement %T at %v", st, st.Pos())
	return states
}

func (w *Walk) stmtLabeled(st ast.Stmt, states []*wstate, label string) []*wstate {
	switch x := st.(type) {
	case *ast.ForStmt, *ast.RangeStmt:
		return w.loop(x, states, label)
	case *ast.SwitchStmt:
		return w.switchStmt(x, states, label)
	case *ast.TypeSwitchStmt:
		return w.typeSwitch(x, states, label)
	case *ast.SelectStmt:
		return w.selectStmt(x, states, label)
	}
	return w.stmt(st, states)
}

// absorbBreak turns break flows targeting this statement into normal flow.
func absorbBreak(in []*wstate, label string) []*wstate {
	var out []*wstate
	for _, s := range in {
		if s.flow == fBreak && (s.label == "" || s.label == label) {
			out = append(out, &wstate{U: s.U, Defers: s.Defers, flags: s.flags})
		} else {
			out = append(out, s)
		}
	}
	return dedup(out)
}

func (w *Walk) switchStmt(x *ast.SwitchStmt, states []*wstate, label string) []*wstate {
	states = w.stmt(x.Init, states)
	n, o := splitFlow(states)
	if x.Tag != nil {
		w.visit(n, x.Tag)
		n = w.expr(n, x.Tag)
	}
	var out []*wstate
	hasDefault := false
	// states that reach clause i are those for which earlier clauses did not match
	remaining := n
	for _, cs := range x.Body.List {
		cc := cs.(*ast.CaseClause)
		if cc.List == nil {
			hasDefault = true
			continue
		}
		var enter []*wstate
		for _, ce := range cc.List {
			w.visit(remaining, ce)
		}
		if x.Tag == nil && len(cc.List) == 1 {
			// switch { case cond: } is an if-chain
			rem := w.expr(remaining, cc.List[0])
			enter = w.refineAll(rem, cc.List[0], true)
			remaining = w.refineAll(rem, cc.List[0], false)
		} else {
			enter = remaining
			if x.Tag != nil && w.Branch != nil {
				// refinement hook: tag == case value (synthesised comparison)
				var e2 []*wstate
				for _, s := range remaining {
					matched := false
					for _, ce := range cc.List {
						be := &ast.BinaryExpr{X: x.Tag, Op: token.EQL, Y: ce, OpPos: ce.Pos()}
						for _, t := range w.refine(s, be, true) {
							e2 = append(e2, t)
							matched = true
						}
					}
					_ = matched
				}
				enter = dedup(e2)
			}
		}
		out = append(out, w.block(cc.Body, enter)...)
	}
	if hasDefault {
		for _, cs := range x.Body.List {
			cc := cs.(*ast.CaseClause)
			if cc.List == nil {
				dflt := remaining
				if x.Tag != nil && w.Branch != nil {
					// default: tag differs from every listed case
					for _, cs2 := range x.Body.List {
						for _, ce := range cs2.(*ast.CaseClause).List {
							be := &ast.BinaryExpr{X: x.Tag, Op: token.EQL, Y: ce, OpPos: ce.Pos()}
							dflt = w.refineAll(dflt, be, false)
						}
					}
				}
				out = append(out, w.block(cc.Body, dflt)...)
			}
		}
	} else {
		out = append(out, remaining...)
	}
	return append(absorbBreak(out, label), o...)
}

func (w *Walk) typeSwitch(x *ast.TypeSwitchStmt, states []*wstate, label string) []*wstate {
	states = w.stmt(x.Init, states)
	n, o := splitFlow(states)
	// the guard `v := y.(type)` / `y.(type)`
	switch a := x.Assign.(type) {
	case *ast.AssignStmt:
		n = w.exprs(n, a.Rhs)
	case *ast.ExprStmt:
		n = w.expr(n, a.X)
	}
	var out []*wstate
	hasDefault := false
	for _, cs := range x.Body.List {
		cc := cs.(*ast.CaseClause)
		if cc.List == nil {
			hasDefault = true
		}
		var enter []*wstate
		for _, s := range n {
			enter = append(enter, w.event(s, cc)...)
		}
		out = append(out, w.block(cc.Body, dedup(enter))...)
	}
	if !hasDefault {
		out = append(out, n...)
	}
	return append(absorbBreak(out, label), o...)
}

func (w *Walk) selectStmt(x *ast.SelectStmt, states []*wstate, label string) []*wstate {
	n, o := splitFlow(states)
	var out []*wstate
	for _, cs := range x.Body.List {
		cc := cs.(*ast.CommClause)
		enter := n
		// the clause head is an event of its own (which communication happened)
		var e2 []*wstate
		for _, s := range enter {
			e2 = append(e2, w.event(s, cc)...)
		}
		enter = e2
		if cc.Comm != nil {
			enter = w.stmt(cc.Comm, enter)
		}
		out = append(out, w.block(cc.Body, enter)...)
	}
	return append(absorbBreak(out, label), o...)
}

func (w *Walk) loop(x ast.Stmt, states []*wstate, label string) []*wstate {
	var init ast.Stmt
	var cond ast.Expr
	var post ast.Stmt
	var body *ast.BlockStmt
	switch l := x.(type) {
	case *ast.ForStmt:
		init, cond, post, body = l.Init, l.Cond, l.Post, l.Body
	case *ast.RangeStmt:
		body = l.Body
		w.visit(states, l.X)
		states = w.expr(states, l.X)
	}
	states = w.stmt(init, states)
	n, o := splitFlow(states)

	// one traversal of the body from a given set of head states
	once := func(head []*wstate) (fall, brk, other []*wstate) {
		if cond != nil {
			w.visit(head, cond)
			head = w.expr(head, cond)
			hn, ho := splitFlow(head)
			other = append(other, ho...)
			exitS := w.refineAll(hn, cond, false)
			brk = append(brk, exitS...)
			head = w.refineAll(hn, cond, true)
		}
		if rs, ok := x.(*ast.RangeStmt); ok {
			var h2 []*wstate
			for _, s := range head {
				h2 = append(h2, w.event(s, rs)...)
			}
			// a range loop may also finish
			brk = append(brk, head...)
			head = h2
		}
		res := w.block(body.List, head)
		for _, s := range res {
			switch {
			case s.flow == fNormal, s.flow == fContinue && (s.label == "" || s.label == label):
				fall = append(fall, &wstate{U: s.U, Defers: s.Defers, flags: s.flags})
			case s.flow == fBreak && (s.label == "" || s.label == label):
				brk = append(brk, &wstate{U: s.U, Defers: s.Defers, flags: s.flags})
			default:
				other = append(other, s)
			}
		}
		fall = w.stmt(post, dedup(fall))
		return dedup(fall), dedup(brk), dedup(other)
	}

	if w.Loop != nil {
		var out []*wstate
		allHandled := true
		for _, s := range n {
			var escaped []*wstate
			bodyFn := func(u PState) []LoopOut {
				fall, brk, other := once([]*wstate{s.with(u)})
				var lo []LoopOut
				for _, f := range fall {
					lo = append(lo, LoopOut{f.U, fNormal})
				}
				for _, b := range brk {
					lo = append(lo, LoopOut{b.U, fBreak})
				}
				for _, ot := range other {
					lo = append(lo, LoopOut{ot.U, ot.flow})
					escaped = append(escaped, ot)
				}
				return lo
			}
			res, handled := w.Loop(w, s.U, x, bodyFn)
			if !handled {
				allHandled = false
				break
			}
			for _, u := range res {
				out = append(out, s.with(u))
			}
			out = append(out, escaped...)
		}
		if allHandled {
			return dedup(append(out, o...))
		}
	}

	// default: fixpoint over the set of loop-head states
	seen := map[string]*wstate{}
	var exits, others []*wstate
	work := n
	for iter := 0; len(work) > 0; iter++ {
		if iter > 64 || len(seen) > w.MaxStates {
			w.undec("loop at %v did not reach a fixpoint", x.Pos())
			break
		}
		var fresh []*wstate
		for _, s := range work {
			if _, ok := seen[s.key()]; !ok {
				seen[s.key()] = s
				fresh = append(fresh, s)
			}
		}
		if len(fresh) == 0 {
			break
		}
		fall, brk, other := once(fresh)
		exits = append(exits, brk...)
		others = append(others, other...)
		work = fall
	}
	if cond == nil {
		if _, isRange := x.(*ast.RangeStmt); !isRange {
			// for { } only leaves through break/return
			return dedup(append(append(exits, others...), o...))
		}
	}
	return dedup(append(append(exits, others...), o...))
}
