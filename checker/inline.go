package main

import (
	"fmt"
	"go/ast"
	"go/token"
	"go/types"
	"os"
	"sort"
	"strings"
)

// Inlining of extracted helpers. "Move a block into a new helper" is the most common behaviour-
// preserving edit, and a rule that looks for a pattern inside one function loses it when the block
// moves. Renames are undone by canon.go; this pass undoes extractions: a function or method that
// is NEW with respect to the inventory of the reference tree (anchors.json), is unexported, has no
// results and a body without return / defer / go / goto / labels / recover, is substituted for its
// calls in statement position, in memory:
//
//	c.deliver(data{Index: index})   ==>   { var c *conn = c; var result data = data{Index: index}; <body of deliver> }
//
// The block binds receiver and parameters exactly once, in order, so the substitution has the
// meaning of the call. The helper itself stays in the tree. If the result does not type-check
// (an import missing in the caller's file, a name clash) the tree is analysed as it is.

func (p *Prog) inlineOverlay(overlay map[string][]byte) (map[string][]byte, []string) {
	ref := anchorSigs
	if len(ref) == 0 {
		return nil, nil
	}
	cur := p.inventory()
	isNew := func(f *types.Func) bool {
		if f == nil || f.Pkg() == nil || f.Exported() {
			return false
		}
		rel := p.RelPkg(f.Pkg())
		name := f.Name()
		if sig, ok := f.Type().(*types.Signature); ok && sig.Recv() != nil {
			t := sig.Recv().Type()
			if pt, ok := t.(*types.Pointer); ok {
				t = pt.Elem()
			}
			nt, ok := t.(*types.Named)
			if !ok {
				return false
			}
			name = nt.Obj().Name() + "." + name
		}
		k := invKey("F", rel, name)
		_, inCur := cur[k]
		_, inRef := ref[k]
		return inCur && !inRef
	}
	inlinable := func(fd *ast.FuncDecl) bool {
		if fd == nil || fd.Body == nil || fd.Type.Results != nil && len(fd.Type.Results.List) > 0 || fd.Type.TypeParams != nil {
			return false
		}
		if fd.Type.Params != nil {
			for _, f := range fd.Type.Params.List {
				if len(f.Names) == 0 {
					return false
				}
				if _, variadic := f.Type.(*ast.Ellipsis); variadic {
					return false
				}
			}
		}
		if fd.Recv != nil && (len(fd.Recv.List) != 1 || len(fd.Recv.List[0].Names) != 1) {
			return false
		}
		ok := true
		n := len(fd.Body.List)
		ast.Inspect(fd.Body, func(m ast.Node) bool {
			switch x := m.(type) {
			case *ast.FuncLit:
				return false
			case *ast.ReturnStmt:
				if n == 0 || ast.Node(fd.Body.List[n-1]) != m || len(x.Results) > 0 {
					ok = false
				}
			case *ast.DeferStmt, *ast.GoStmt, *ast.LabeledStmt:
				ok = false
			case *ast.BranchStmt:
				if x.Tok == token.GOTO || x.Label != nil {
					ok = false
				}
			case *ast.CallExpr:
				if id, isId := x.Fun.(*ast.Ident); isId && id.Name == "recover" {
					ok = false
				}
			}
			return ok
		})
		// break / continue at the top level of the body would bind to the caller's loop
		var topJump func(list []ast.Stmt) bool
		topJump = func(list []ast.Stmt) bool {
			for _, s := range list {
				switch x := s.(type) {
				case *ast.BranchStmt:
					return true
				case *ast.IfStmt:
					if topJump(x.Body.List) {
						return true
					}
					if eb, isBlk := x.Else.(*ast.BlockStmt); isBlk && topJump(eb.List) {
						return true
					}
					if ei, isIf := x.Else.(*ast.IfStmt); isIf && topJump([]ast.Stmt{ei}) {
						return true
					}
				case *ast.BlockStmt:
					if topJump(x.List) {
						return true
					}
				}
			}
			return false
		}
		return ok && !topJump(fd.Body.List)
	}
	srcOf := func(file string) []byte {
		if b, ok := overlay[file]; ok {
			return b
		}
		b, err := os.ReadFile(file)
		if err != nil {
			return nil
		}
		return b
	}
	text := func(n ast.Node) string {
		a, b := p.Fset.Position(n.Pos()), p.Fset.Position(n.End())
		src := srcOf(a.Filename)
		if src == nil || a.Offset < 0 || b.Offset > len(src) || a.Offset > b.Offset {
			return ""
		}
		return string(src[a.Offset:b.Offset])
	}
	type edit struct {
		off, n int
		text   string
	}
	edits := map[string][]edit{}
	var notes []string
	inlinedSites := map[*types.Func]int{}
	for _, pkg := range p.Pkgs {
		info := pkg.TypesInfo
		qual := func(other *types.Package) string {
			if other == pkg.Types {
				return ""
			}
			return other.Name()
		}
		for _, file := range pkg.Syntax {
			for _, d := range file.Decls {
				caller, ok := d.(*ast.FuncDecl)
				if !ok || caller.Body == nil {
					continue
				}
				ast.Inspect(caller.Body, func(m ast.Node) bool {
					es, ok := m.(*ast.ExprStmt)
					if !ok {
						return true
					}
					call, ok := es.X.(*ast.CallExpr)
					if !ok || call.Ellipsis.IsValid() {
						return true
					}
					f := Callee(info, call)
					if !isNew(f) || f.Pkg() != pkg.Types {
						return true
					}
					fd := p.Decl(f)
					if fd == caller || !inlinable(fd) {
						return true
					}
					sig := f.Type().(*types.Signature)
					if sig.Params().Len() != len(call.Args) {
						return true
					}
					var b strings.Builder
					b.WriteString("{\n")
					var bound []string
					bind := func(name string, t types.Type, arg string) bool {
						if arg == "" {
							return false
						}
						// an argument must not mention a name bound before it (it would be captured)
						for _, bn := range bound {
							if bn != name && mentionsWord(arg, bn) {
								return false
							}
						}
						if name == "_" {
							fmt.Fprintf(&b, "_ = %s\n", arg)
							return true
						}
						if arg == name {
							// the caller's variable of the same name: no binding needed (and the rules keep seeing ONE object)
							bound = append(bound, name)
							return true
						}
						fmt.Fprintf(&b, "var %s %s = %s\n_ = %s\n", name, types.TypeString(t, qual), arg, name)
						bound = append(bound, name)
						return true
					}
					if fd.Recv != nil {
						sel, ok := ast.Unparen(call.Fun).(*ast.SelectorExpr)
						if !ok {
							return true
						}
						rname := fd.Recv.List[0].Names[0].Name
						rt := sig.Recv().Type()
						arg := text(sel.X)
						// a method with a pointer receiver called on an addressable value: &x
						if _, isPtr := rt.(*types.Pointer); isPtr {
							if at, ok := info.Types[sel.X]; ok {
								if _, argPtr := at.Type.Underlying().(*types.Pointer); !argPtr {
									arg = "&(" + arg + ")"
								}
							}
						} else if at, ok := info.Types[sel.X]; ok {
							if _, argPtr := at.Type.Underlying().(*types.Pointer); argPtr {
								arg = "*(" + arg + ")"
							}
						}
						if !bind(rname, rt, arg) {
							return true
						}
					}
					i := 0
					okAll := true
					for _, fl := range fd.Type.Params.List {
						for _, nm := range fl.Names {
							if !bind(nm.Name, sig.Params().At(i).Type(), text(call.Args[i])) {
								okAll = false
							}
							i++
						}
					}
					if !okAll {
						return true
					}
					body := fd.Body.List
					if n := len(body); n > 0 {
						if _, isRet := body[n-1].(*ast.ReturnStmt); isRet {
							body = body[:n-1]
						}
					}
					for _, s := range body {
						t := text(s)
						if t == "" {
							return true
						}
						b.WriteString(t)
						b.WriteString("\n")
					}
					b.WriteString("}")
					a, e := p.Fset.Position(es.Pos()), p.Fset.Position(es.End())
					edits[a.Filename] = append(edits[a.Filename], edit{a.Offset, e.Offset - a.Offset, b.String()})
					inlinedSites[f]++
					notes = append(notes, fmt.Sprintf("%s inlined into %s", p.FuncName(f), p.DeclName(caller)))
					return true
				})
			}
		}
	}
	if len(edits) == 0 {
		return nil, nil
	}
	// a helper whose every use has been substituted is taken out of the tree: left behind it would be a function
	// without callers, and the rules that judge a helper by its callers (L1) would judge it unguarded
	for f, n := range inlinedSites {
		uses := 0
		for _, pkg := range p.Pkgs {
			if pkg.Types != f.Pkg() {
				continue
			}
			for _, o := range pkg.TypesInfo.Uses {
				if o == types.Object(f) {
					uses++
				}
			}
		}
		if uses != n {
			continue
		}
		if fd := p.Decl(f); fd != nil {
			start := fd.Pos()
			if fd.Doc != nil {
				start = fd.Doc.Pos()
			}
			a, e := p.Fset.Position(start), p.Fset.Position(fd.End())
			edits[a.Filename] = append(edits[a.Filename], edit{a.Offset, e.Offset - a.Offset, ""})
		}
	}
	out := map[string][]byte{}
	for k, v := range overlay {
		out[k] = v
	}
	for file, es := range edits {
		src := srcOf(file)
		if src == nil {
			return nil, nil
		}
		sort.Slice(es, func(i, j int) bool { return es[i].off > es[j].off })
		last := len(src) + 1
		for _, e := range es {
			if e.off+e.n > last || e.off+e.n > len(src) {
				continue // nested inside an edit already applied
			}
			last = e.off
			src = append(append(append([]byte{}, src[:e.off]...), e.text...), src[e.off+e.n:]...)
		}
		out[file] = src
	}
	sort.Strings(notes)
	return out, notes
}

func mentionsWord(s, w string) bool {
	for i := 0; i+len(w) <= len(s); i++ {
		if s[i:i+len(w)] != w {
			continue
		}
		before := i == 0 || !isIdentByte(s[i-1])
		after := i+len(w) == len(s) || !isIdentByte(s[i+len(w)])
		if before && after {
			return true
		}
	}
	return false
}

func isIdentByte(c byte) bool {
	return c == '_' || c >= '0' && c <= '9' || c >= 'a' && c <= 'z' || c >= 'A' && c <= 'Z' || c >= 0x80
}
