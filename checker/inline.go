package main

import (
	"fmt"
	"go/ast"
	"go/token"
	"go/types"
	"os"
	"sort"
	"strings"
)

// Inlining of extracted helpers. "Move a block into a new helper" is the most common behaviour-
// preserving edit, and a rule that looks for a pattern inside one function loses it when the block
// moves. Renames are undone by canon.go; this pass undoes extractions: a function or method that
// is NEW with respect to the inventory of the reference tree (anchors.json), is unexported and has
// a body without defer / goto / labels / recover, is substituted for its calls, in memory, in the
// form that is the closest inverse of the extraction:
//
//	flat          a helper whose only return is its last statement: bindings and body stand in the
//	              caller's statement list, the returned expressions take the place of the call
//	direct block  several returns: inlNL: switch { default: <body> }, every `return x, y` becomes
//	              `a, b = x, y; break inlNL` with a, b the variables the statement assigns (named
//	              results, same-named top-level locals and same-named parameters of the helper ARE
//	              those variables); also for `return helper(..)` in a function with named results
//	              and for `if a, b = helper(..); cond {`
//	temporaries   only where the value goes straight into an argument of another call
//
// The flat form is tried first; callers in which it does not type-check are re-done in block form
// (Load, errorDecls); if nothing type-checks the tree is analysed as it is. A tree with
// substitutions is kept in both forms (Prog.PreInline): a rule that is not satisfied with the
// substituted tree decides on the tree as written (runRules).

// declKey names a function declaration independently of the type checker (file|Recv.Name), so that a caller in which the
// flat substitution did not type-check can be found again in the next attempt.
func declKey(file string, fd *ast.FuncDecl) string {
	name := fd.Name.Name
	if fd.Recv != nil && len(fd.Recv.List) == 1 {
		t := fd.Recv.List[0].Type
		if st, ok := t.(*ast.StarExpr); ok {
			t = st.X
		}
		if ix, ok := t.(*ast.IndexExpr); ok {
			t = ix.X
		}
		if id, ok := t.(*ast.Ident); ok {
			name = id.Name + "." + name
		}
	}
	return file + "|" + name
}

// inlineOverlay: forceBlock names the callers (declKey) in which every substitution takes the block form; allBlock asks
// for the block form everywhere.
func (p *Prog) inlineOverlay(overlay map[string][]byte, forceBlock map[string]bool, allBlock bool) (map[string][]byte, []string) {
	ref := anchorSigs
	if len(ref) == 0 {
		return nil, nil
	}
	cur := p.inventory()
	isNew := func(f *types.Func) bool {
		if f == nil || f.Pkg() == nil || f.Exported() {
			return false
		}
		rel := p.RelPkg(f.Pkg())
		name := f.Name()
		if sig, ok := f.Type().(*types.Signature); ok && sig.Recv() != nil {
			t := sig.Recv().Type()
			if pt, ok := t.(*types.Pointer); ok {
				t = pt.Elem()
			}
			nt, ok := t.(*types.Named)
			if !ok {
				return false
			}
			name = nt.Obj().Name() + "." + name
		}
		k := invKey("F", rel, name)
		_, inCur := cur[k]
		_, inRef := ref[k]
		return inCur && !inRef
	}
	inlinable := func(fd *ast.FuncDecl) bool {
		if fd == nil || fd.Body == nil || fd.Type.TypeParams != nil {
			return false
		}
		if fd.Type.Params != nil {
			for _, f := range fd.Type.Params.List {
				if len(f.Names) == 0 {
					return false
				}
				if _, variadic := f.Type.(*ast.Ellipsis); variadic {
					return false
				}
			}
		}
		if fd.Recv != nil && (len(fd.Recv.List) != 1 || len(fd.Recv.List[0].Names) != 1) {
			return false
		}
		ok := true
		ast.Inspect(fd.Body, func(m ast.Node) bool {
			switch x := m.(type) {
			case *ast.FuncLit:
				return false
			case *ast.DeferStmt, *ast.LabeledStmt:
				ok = false
			case *ast.BranchStmt:
				if x.Tok == token.GOTO || x.Label != nil {
					ok = false
				}
			case *ast.CallExpr:
				if id, isId := x.Fun.(*ast.Ident); isId && id.Name == "recover" {
					ok = false
				}
			}
			return ok
		})
		// break / continue at the top level of the body would bind to the caller's loop
		var topJump func(list []ast.Stmt) bool
		topJump = func(list []ast.Stmt) bool {
			for _, s := range list {
				switch x := s.(type) {
				case *ast.BranchStmt:
					return true
				case *ast.IfStmt:
					if topJump(x.Body.List) {
						return true
					}
					if eb, isBlk := x.Else.(*ast.BlockStmt); isBlk && topJump(eb.List) {
						return true
					}
					if ei, isIf := x.Else.(*ast.IfStmt); isIf && topJump([]ast.Stmt{ei}) {
						return true
					}
				case *ast.BlockStmt:
					if topJump(x.List) {
						return true
					}
				}
			}
			return false
		}
		return ok && !topJump(fd.Body.List)
	}
	srcOf := func(file string) []byte {
		if b, ok := overlay[file]; ok {
			return b
		}
		b, err := os.ReadFile(file)
		if err != nil {
			return nil
		}
		return b
	}
	text := func(n ast.Node) string {
		a, b := p.Fset.Position(n.Pos()), p.Fset.Position(n.End())
		src := srcOf(a.Filename)
		if src == nil || a.Offset < 0 || b.Offset > len(src) || a.Offset > b.Offset {
			return ""
		}
		return string(src[a.Offset:b.Offset])
	}
	type edit struct {
		off, n int
		text   string
		fn     *types.Func // the helper substituted here (nil: a removal)
		note   string
	}
	edits := map[string][]edit{}
	tmpN := 0
	for _, pkg := range p.Pkgs {
		info := pkg.TypesInfo
		qual := func(other *types.Package) string {
			if other == pkg.Types {
				return ""
			}
			return other.Name()
		}
		for _, file := range pkg.Syntax {
			for _, d := range file.Decls {
				caller, ok := d.(*ast.FuncDecl)
				if !ok || caller.Body == nil {
					continue
				}
				done := map[ast.Stmt]bool{} // one substitution per statement and round
				var stack []ast.Node
				ast.Inspect(caller.Body, func(m ast.Node) bool {
					if m == nil {
						stack = stack[:len(stack)-1]
						return true
					}
					stack = append(stack, m)
					call, ok := m.(*ast.CallExpr)
					if !ok || call.Ellipsis.IsValid() {
						return true
					}
					f := Callee(info, call)
					if !isNew(f) || f.Pkg() != pkg.Types {
						return true
					}
					fd := p.Decl(f)
					if fd == caller || !inlinable(fd) {
						return true
					}
					sig := f.Type().(*types.Signature)
					if sig.Params().Len() != len(call.Args) {
						return true
					}
					// the statement the call belongs to: the nearest enclosing statement, which must be an element of a statement list
					// (so that the substituted body can stand in front of it), reached without crossing a function literal or the
					// right-hand side of && / || (evaluated conditionally); a loop condition is evaluated more than once
					si := -1
					for i := len(stack) - 2; i >= 0; i-- {
						if _, isStmt := stack[i].(ast.Stmt); isStmt {
							si = i
							break
						}
						if _, isLit := stack[i].(*ast.FuncLit); isLit {
							return true
						}
						if be, isBin := stack[i].(*ast.BinaryExpr); isBin && (be.Op == token.LAND || be.Op == token.LOR) && ast.Node(be.Y) == stack[i+1] {
							return true
						}
					}
					if si < 1 {
						return true
					}
					stmt := stack[si].(ast.Stmt)
					if done[stmt] {
						return true
					}
					switch st := stmt.(type) {
					case *ast.ForStmt, *ast.LabeledStmt, *ast.SelectStmt, *ast.BlockStmt, *ast.CaseClause, *ast.CommClause:
						return true
					case *ast.IfStmt:
						if !containsNode(st.Cond, call) {
							return true
						}
					case *ast.SwitchStmt:
						if st.Tag == nil || !containsNode(st.Tag, call) {
							return true
						}
					case *ast.RangeStmt:
						if !containsNode(st.X, call) {
							return true
						}
					case *ast.TypeSwitchStmt:
						return true
					}
					// `if a, b = helper(); cond {` is `a, b = helper(); if cond {`: the statement that has to stand in a list is the if
					anchor, ai := stmt, si
					if ifs, isIf := stack[si-1].(*ast.IfStmt); isIf && si >= 2 && ifs.Init == stmt {
						if _, isAs := stmt.(*ast.AssignStmt); isAs && !done[ifs] {
							anchor, ai = ifs, si-1
						}
					}
					var list []ast.Stmt
					switch par := stack[ai-1].(type) {
					case *ast.BlockStmt:
						list = par.List
					case *ast.CaseClause:
						list = par.Body
					case *ast.CommClause:
						list = par.Body
					}
					member := false
					for _, s := range list {
						if s == anchor {
							member = true
						}
					}
					if !member {
						return true
					}
					nres := sig.Results().Len()
					if es, isExpr := stmt.(*ast.ExprStmt); nres == 0 && !(isExpr && ast.Unparen(es.X) == ast.Expr(call)) {
						return true
					}
					// the body is moved in front of the statement: nothing of the statement may be evaluated before the call
					earlier := false
					ast.Inspect(stmt, func(q ast.Node) bool {
						if _, isLit := q.(*ast.FuncLit); isLit {
							return false
						}
						if oc, isCall := q.(*ast.CallExpr); isCall && oc != call && oc.Pos() < call.Pos() && !containsNode(oc, call) {
							if _, conv := isConversion(info, oc); !conv {
								earlier = true
							}
						}
						return true
					})
					if earlier {
						return true
					}
					var b strings.Builder
					var bound []string
					paramUnify := map[string]bool{} // parameters that ARE variables the statement assigns (direct form)
					useParamUnify := false
					bind := func(name string, t types.Type, arg string) bool {
						if arg == "" {
							return false
						}
						if useParamUnify && paramUnify[name] {
							if arg != name {
								fmt.Fprintf(&b, "%s = %s\n", name, arg)
							}
							return true
						}
						// an argument must not mention a name bound before it (it would be captured)
						for _, bn := range bound {
							if bn != name && mentionsWord(arg, bn) {
								return false
							}
						}
						if name == "_" {
							fmt.Fprintf(&b, "_ = %s\n", arg)
							return true
						}
						if arg == name {
							// the caller's variable of the same name: no binding needed (and the rules keep seeing ONE object)
							return true
						}
						fmt.Fprintf(&b, "var %s %s = %s\n_ = %s\n", name, types.TypeString(t, qual), arg, name)
						bound = append(bound, name)
						return true
					}
					// temporaries that carry the results out of the block
					tmpN++
					var temps []string
					for i := 0; i < nres; i++ {
						tn := fmt.Sprintf("inl%dr%d", tmpN, i)
						temps = append(temps, tn)
						fmt.Fprintf(&b, "var %s %s\n_ = %s\n", tn, types.TypeString(sig.Results().At(i).Type(), qual), tn)
					}
					// returns of the helper (outside function literals)
					var rets []*ast.ReturnStmt
					ast.Inspect(fd.Body, func(q ast.Node) bool {
						switch x := q.(type) {
						case *ast.FuncLit:
							return false
						case *ast.ReturnStmt:
							rets = append(rets, x)
						}
						return true
					})
					nb := len(fd.Body.List)
					trailing := nb > 0 && len(rets) > 0 && ast.Node(fd.Body.List[nb-1]) == ast.Node(rets[len(rets)-1])
					wrap := len(rets) > 1 || len(rets) == 1 && !trailing
					label := fmt.Sprintf("inl%dL", tmpN)
					callerFile := p.Fset.Position(caller.Pos()).Filename
					flat := !wrap && !allBlock && !forceBlock[declKey(callerFile, caller)]
					// a named result that the statement assigns to under the same name (err = helper() with result err) is the
					// caller's variable itself: it is set to its zero value instead of being declared
					unified := map[string]bool{}
					direct := false // block form in which the named results ARE the variables the statement assigns
					var hoist []string
					if as, isAssign := stmt.(*ast.AssignStmt); isAssign && (as.Tok == token.ASSIGN || as.Tok == token.DEFINE) && len(as.Rhs) == 1 && ast.Unparen(as.Rhs[0]) == ast.Expr(call) && fd.Type.Results != nil {
						var rn []string
						for _, fl := range fd.Type.Results.List {
							for _, nm := range fl.Names {
								rn = append(rn, nm.Name)
							}
						}
						if len(rn) == len(as.Lhs) {
							all := true
							for i, l := range as.Lhs {
								id, isId := l.(*ast.Ident)
								if !isId || id.Name != rn[i] || id.Name == "_" {
									all = false
									continue
								}
								if as.Tok == token.DEFINE && info.Defs[id] != nil {
									// a new variable of the caller: declared in front of the block form
									hoist = append(hoist, fmt.Sprintf("var %s %s\n_ = %s\n", id.Name, types.TypeString(sig.Results().At(i).Type(), qual), id.Name))
									continue
								}
								unified[id.Name] = true
								hoist = append(hoist, fmt.Sprintf("%s = %s\n", id.Name, zeroText(sig.Results().At(i).Type(), qual)))
							}
							direct = all && !flat
							if !flat && !direct {
								unified = map[string]bool{}
							}
						}
					}
					if flat {
						// the flat form must not declare a name that is visible in the caller at this point: it would shadow it
						// for the rest of the block
						declared := map[string]bool{}
						if fd.Recv != nil {
							if sel, ok := ast.Unparen(call.Fun).(*ast.SelectorExpr); ok && text(sel.X) != fd.Recv.List[0].Names[0].Name {
								declared[fd.Recv.List[0].Names[0].Name] = true
							}
						}
						pi := 0
						for _, fl := range fd.Type.Params.List {
							for _, nm := range fl.Names {
								if pi < len(call.Args) && text(call.Args[pi]) != nm.Name {
									declared[nm.Name] = true
								}
								pi++
							}
						}
						if fd.Type.Results != nil {
							for _, fl := range fd.Type.Results.List {
								for _, nm := range fl.Names {
									if !unified[nm.Name] {
										declared[nm.Name] = true
									}
								}
							}
						}
						for _, bs := range fd.Body.List {
							switch x := bs.(type) {
							case *ast.AssignStmt:
								if x.Tok == token.DEFINE {
									for _, l := range x.Lhs {
										if id, isId := l.(*ast.Ident); isId {
											declared[id.Name] = true
										}
									}
								}
							case *ast.DeclStmt:
								if gd, isGen := x.Decl.(*ast.GenDecl); isGen {
									for _, sp := range gd.Specs {
										if vs, isVal := sp.(*ast.ValueSpec); isVal {
											for _, nm := range vs.Names {
												declared[nm.Name] = true
											}
										}
									}
								}
							}
						}
						delete(declared, "_")
						// names the statement itself defines from the call are new by definition
						if as, isAssign := stmt.(*ast.AssignStmt); isAssign && as.Tok == token.DEFINE {
							for _, l := range as.Lhs {
								if id, isId := l.(*ast.Ident); isId && info.Defs[id] != nil {
									delete(declared, id.Name)
								}
							}
						}
						if inner := pkg.Types.Scope().Innermost(stmt.Pos()); inner != nil {
							for name := range declared {
								if sc, obj := inner.LookupParent(name, stmt.Pos()); obj != nil && sc != types.Universe && sc != pkg.Types.Scope() && sc.Parent() != pkg.Types.Scope() {
									flat = false
								}
							}
						}
					}
					// block form, unnamed results: `data, ok := helper()` where the helper builds its results in locals of the same
					// names (data, err := read(); ...; return data, true). Those locals, defined at the top level of the helper's
					// body with the very types of the results, become the caller's variables: the inverse of the extraction
					directU := false
					type bodyRep struct {
						a, e int
						s    string
					}
					var defReps []bodyRep
					// `return helper(..)` in a function with named results is `r1, r2 = helper(..); return`
					returnForm, namedMatch := false, false
					var lhs []*ast.Ident
					lhsTok := token.ASSIGN
					if as, isAssign := stmt.(*ast.AssignStmt); isAssign && (as.Tok == token.ASSIGN || as.Tok == token.DEFINE) && len(as.Rhs) == 1 && ast.Unparen(as.Rhs[0]) == ast.Expr(call) && len(as.Lhs) == nres {
						lhsTok = as.Tok
						for _, l := range as.Lhs {
							id, _ := l.(*ast.Ident)
							lhs = append(lhs, id)
						}
					} else if rs, isRet := stmt.(*ast.ReturnStmt); isRet && len(rs.Results) == 1 && ast.Unparen(rs.Results[0]) == ast.Expr(call) && caller.Type.Results != nil {
						for _, fl := range caller.Type.Results.List {
							for _, nm := range fl.Names {
								lhs = append(lhs, nm)
							}
						}
						// the enclosing function must be the declaration itself (not a literal inside it)
						inLit := false
						for _, a := range stack {
							if _, isLit := a.(*ast.FuncLit); isLit {
								inLit = true
							}
						}
						if len(lhs) == nres && !inLit {
							returnForm = true
						} else {
							lhs = nil
						}
					}
					if !flat && !direct && nres > 0 && len(lhs) == nres {
						targets := map[string]int{}
						okU := true
						var hoistU, names []string
						for i, id := range lhs {
							if id == nil || id.Name == "_" {
								okU = false
								break
							}
							targets[id.Name] = i
							names = append(names, id.Name)
							switch {
							case returnForm:
							case lhsTok == token.DEFINE && info.Defs[id] != nil:
								hoistU = append(hoistU, fmt.Sprintf("var %s %s\n_ = %s\n", id.Name, types.TypeString(sig.Results().At(i).Type(), qual), id.Name))
							default:
								hoistU = append(hoistU, fmt.Sprintf("%s = %s\n", id.Name, zeroText(sig.Results().At(i).Type(), qual)))
							}
						}
						if okU {
							topDefine := map[*ast.Ident]*ast.AssignStmt{}
							for _, bs := range fd.Body.List {
								if x, isAs := bs.(*ast.AssignStmt); isAs && x.Tok == token.DEFINE {
									for _, l := range x.Lhs {
										if id, isId := l.(*ast.Ident); isId {
											topDefine[id] = x
										}
									}
								}
							}
							// named results of the helper that carry the very names of the targets ARE the targets
							resultIdent := map[*ast.Ident]bool{}
							if fd.Type.Results != nil {
								var rn []*ast.Ident
								for _, fl := range fd.Type.Results.List {
									rn = append(rn, fl.Names...)
								}
								match := len(rn) == len(names)
								for i := range rn {
									if match && rn[i].Name != names[i] {
										match = false
									}
								}
								if match {
									namedMatch = true
									for _, id := range rn {
										resultIdent[id] = true
									}
								}
							}
							// a parameter that carries the name and the type of a target is that target too (value, ended =
							// accumulate(value): the helper works on the caller's variable)
							paramIdent := map[*ast.Ident]bool{}
							if fd.Type.Params != nil {
								for _, fl := range fd.Type.Params.List {
									for _, nm := range fl.Names {
										if i, hit := targets[nm.Name]; hit {
											if pv, _ := info.Defs[nm].(*types.Var); pv != nil && types.Identical(pv.Type(), sig.Results().At(i).Type()) {
												paramIdent[nm] = true
												paramUnify[nm.Name] = true
											}
										}
									}
								}
							}
							rew := map[*ast.AssignStmt]bool{}
							ast.Inspect(fd, func(q ast.Node) bool {
								id, isId := q.(*ast.Ident)
								if !isId || resultIdent[id] || paramIdent[id] {
									return true
								}
								obj, isVar := info.Defs[id].(*types.Var)
								if !isVar || obj == nil {
									return true
								}
								if i, hit := targets[id.Name]; hit {
									if x := topDefine[id]; x != nil && types.Identical(obj.Type(), sig.Results().At(i).Type()) {
										rew[x] = true
									} else {
										okU = false
									}
								}
								return true
							})
							if okU {
								hsrcFile := p.Fset.Position(fd.Pos()).Filename
								hsrc := srcOf(hsrcFile)
								for x := range rew {
									var pre strings.Builder
									for _, l := range x.Lhs {
										if id, isId := l.(*ast.Ident); isId && id.Name != "_" {
											if obj := info.Defs[id]; obj != nil {
												if _, hit := targets[id.Name]; !hit {
													fmt.Fprintf(&pre, "var %s %s\n", id.Name, types.TypeString(obj.Type(), qual))
												}
											}
										}
									}
									xa, xe, tk := p.Fset.Position(x.Pos()).Offset, p.Fset.Position(x.End()).Offset, p.Fset.Position(x.TokPos).Offset
									if hsrc == nil || xe > len(hsrc) || tk < xa || tk+2 > xe {
										okU = false
										break
									}
									defReps = append(defReps, bodyRep{xa, xe, pre.String() + string(hsrc[xa:tk]) + "=" + string(hsrc[tk+2:xe])})
								}
							}
						}
						if okU {
							directU = true
							useParamUnify = true
							b.Reset()
							temps = names
							for _, h := range hoistU {
								b.WriteString(h)
							}
						}
					}
					if direct && !flat {
						b.Reset()
						temps = nil
						for _, h := range hoist {
							b.WriteString(h)
						}
					}
					if !flat && !direct && !directU && nres > 0 {
						// what is left is the block form with temporaries, which cuts the identity of the value the rules follow (and
						// the rules have means of their own for boolean helpers in conditions and for results that are assigned or
						// returned): it is used only where the value goes straight into an argument of another call
						parentCall, isArg := stack[len(stack)-2].(*ast.CallExpr)
						if !isArg || ast.Unparen(parentCall.Fun) == ast.Expr(call) {
							return true
						}
					}
					if flat {
						// the flat form: bindings and body stand in the caller's own statement list, the value of the trailing return
						// takes the place of the call - the exact inverse of "extract function". It is tried first; where it does not
						// type-check (a name of the helper meets the same name in the caller) the block form below is used
						b.Reset()
						temps = nil
					} else if wrap {
						fmt.Fprintf(&b, "%s:\nswitch {\ndefault:\n", label)
					} else {
						b.WriteString("{\n")
					}
					if flat && fd.Recv != nil {
						// a receiver expression that is not a plain name is evaluated once, under the receiver's name
					}
					if fd.Recv != nil {
						sel, ok := ast.Unparen(call.Fun).(*ast.SelectorExpr)
						if !ok {
							return true
						}
						rname := fd.Recv.List[0].Names[0].Name
						rt := sig.Recv().Type()
						arg := text(sel.X)
						// a method with a pointer receiver called on an addressable value: &x
						if _, isPtr := rt.(*types.Pointer); isPtr {
							if at, ok := info.Types[sel.X]; ok {
								if _, argPtr := at.Type.Underlying().(*types.Pointer); !argPtr {
									arg = "&(" + arg + ")"
								}
							}
						} else if at, ok := info.Types[sel.X]; ok {
							if _, argPtr := at.Type.Underlying().(*types.Pointer); argPtr {
								arg = "*(" + arg + ")"
							}
						}
						if !bind(rname, rt, arg) {
							return true
						}
					}
					i := 0
					okAll := true
					for _, fl := range fd.Type.Params.List {
						for _, nm := range fl.Names {
							if !bind(nm.Name, sig.Params().At(i).Type(), text(call.Args[i])) {
								okAll = false
							}
							i++
						}
					}
					if !okAll {
						return true
					}
					// named results are locals of the block
					var named []string
					if fd.Type.Results != nil {
						for _, fl := range fd.Type.Results.List {
							for _, nm := range fl.Names {
								named = append(named, nm.Name)
							}
						}
					}
					if len(named) > 0 {
						if len(named) != nres {
							return true
						}
						for i, nm := range named {
							if nm == "_" {
								if flat {
									return true
								}
								named[i] = temps[i]
								continue
							}
							if direct && !flat || directU && namedMatch {
								continue // the caller's own variables, declared or zeroed in front of the block
							}
							if flat && unified[nm] {
								fmt.Fprintf(&b, "%s = %s\n", nm, zeroText(sig.Results().At(i).Type(), qual))
								continue
							}
							fmt.Fprintf(&b, "var %s %s\n_ = %s\n", nm, types.TypeString(sig.Results().At(i).Type(), qual), nm)
						}
					}
					// the body, each return replaced by an assignment to the temporaries (and a jump behind the body)
					bodyStart, bodyEnd := p.Fset.Position(fd.Body.Lbrace).Offset+1, p.Fset.Position(fd.Body.Rbrace).Offset
					src := srcOf(p.Fset.Position(fd.Pos()).Filename)
					if src == nil || bodyEnd > len(src) || bodyStart > bodyEnd {
						return true
					}
					body := string(src[bodyStart:bodyEnd])
					bad := nres > 0 && len(rets) == 0
					var flatVals []string
					var reps []bodyRep
					for _, dr := range defReps {
						reps = append(reps, bodyRep{dr.a - bodyStart, dr.e - bodyStart, dr.s})
					}
					for k := len(rets) - 1; k >= 0; k-- {
						rs := rets[k]
						a, e := p.Fset.Position(rs.Pos()).Offset-bodyStart, p.Fset.Position(rs.End()).Offset-bodyStart
						if a < 0 || e > len(body) {
							bad = true
							break
						}
						if flat {
							// the one trailing return: its values take the place of the call
							switch {
							case nres == 0:
							case len(rs.Results) == 0 && len(named) == nres:
								flatVals = append(flatVals, named...)
							case len(rs.Results) == nres || len(rs.Results) == 1:
								for _, rx := range rs.Results {
									t := text(rx)
									switch ast.Unparen(rx).(type) {
									case *ast.Ident, *ast.BasicLit, *ast.SelectorExpr, *ast.CallExpr, *ast.IndexExpr, *ast.CompositeLit:
									default:
										t = "(" + t + ")"
									}
									flatVals = append(flatVals, t)
								}
							default:
								bad = true
							}
							body = body[:a] + body[e:]
							continue
						}
						// a return is always an element of a statement list: two statements can take its place
						var rep strings.Builder
						switch {
						case nres == 0:
						case direct && len(rs.Results) == 0:
						case direct && len(rs.Results) == nres:
							var vals []string
							for _, rx := range rs.Results {
								vals = append(vals, text(rx))
							}
							fmt.Fprintf(&rep, "%s = %s; ", strings.Join(named, ", "), strings.Join(vals, ", "))
						case direct:
							bad = true
						case len(rs.Results) == nres:
							var vals []string
							for _, rx := range rs.Results {
								vals = append(vals, text(rx))
							}
							fmt.Fprintf(&rep, "%s = %s; ", strings.Join(temps, ", "), strings.Join(vals, ", "))
						case len(rs.Results) == 0 && len(named) == nres:
							fmt.Fprintf(&rep, "%s = %s; ", strings.Join(temps, ", "), strings.Join(named, ", "))
						case len(rs.Results) == 1:
							// return g(): a call with several results
							fmt.Fprintf(&rep, "%s = %s; ", strings.Join(temps, ", "), text(rs.Results[0]))
						default:
							bad = true
						}
						if wrap && !(trailing && k == len(rets)-1) {
							fmt.Fprintf(&rep, "break %s", label)
						}
						reps = append(reps, bodyRep{a, e, rep.String()})
					}
					if !flat {
						sort.Slice(reps, func(i, j int) bool { return reps[i].a > reps[j].a })
						for _, rp := range reps {
							if rp.a < 0 || rp.e > len(body) || rp.a > rp.e {
								bad = true
								break
							}
							body = body[:rp.a] + rp.s + body[rp.e:]
						}
					}
					if bad {
						return true
					}
					b.WriteString(body)
					if flat {
						b.WriteString("\n")
						temps = flatVals
					} else {
						b.WriteString("\n}\n")
					}
					// the statement itself, the call replaced by the temporaries (flat form: by the returned expressions)
					sa, se := p.Fset.Position(stmt.Pos()), p.Fset.Position(stmt.End())
					ca, ce := p.Fset.Position(call.Pos()).Offset, p.Fset.Position(call.End()).Offset
					csrc := srcOf(sa.Filename)
					if csrc == nil || se.Offset > len(csrc) || ca < sa.Offset || ce > se.Offset {
						return true
					}
					if directU && returnForm {
						b.WriteString("return")
					}
					if nres > 0 && !(direct && !flat) && !directU {
						same := false
						if as, isAssign := stmt.(*ast.AssignStmt); flat && isAssign && len(as.Rhs) == 1 && ast.Unparen(as.Rhs[0]) == ast.Expr(call) && len(as.Lhs) == len(temps) {
							// name := helper() where the helper returns its own `name`: the body has defined it already
							same = true
							for i, l := range as.Lhs {
								if text(l) != temps[i] {
									same = false
								}
							}
						}
						if !same {
							b.WriteString(string(csrc[sa.Offset:ca]) + strings.Join(temps, ", ") + string(csrc[ce:se.Offset]))
						}
					}
					done[stmt] = true
					if anchor != stmt {
						// the if without its init statement stands behind what took the init's place
						ifs := anchor.(*ast.IfStmt)
						done[anchor] = true
						co, ae := p.Fset.Position(ifs.Cond.Pos()).Offset, p.Fset.Position(anchor.End()).Offset
						aa := p.Fset.Position(anchor.Pos())
						if co < aa.Offset || ae > len(csrc) || co > ae {
							return true
						}
						b.WriteString("\nif " + string(csrc[co:ae]))
						sa, se = aa, p.Fset.Position(anchor.End())
					}
					edits[sa.Filename] = append(edits[sa.Filename], edit{sa.Offset, se.Offset - sa.Offset, b.String(), f,
						fmt.Sprintf("%s inlined into %s", p.FuncName(f), p.DeclName(caller))})
					return true
				})
			}
		}
	}
	if len(edits) == 0 {
		return nil, nil
	}
	// which substitutions can be applied: an edit that overlaps one further down the file waits for the next round
	var notes []string
	inlinedSites := map[*types.Func]int{}
	applied := map[string][]edit{}
	for file, es := range edits {
		sort.Slice(es, func(i, j int) bool { return es[i].off > es[j].off })
		last := int(^uint(0) >> 1)
		for _, e := range es {
			if e.off+e.n > last {
				continue
			}
			last = e.off
			applied[file] = append(applied[file], e)
			inlinedSites[e.fn]++
			notes = append(notes, e.note)
		}
	}
	// a helper whose every use has been substituted is taken out of the tree: left behind it would be a function
	// without callers, and the rules that judge a helper by its callers (L1) would judge it unguarded
	for f, n := range inlinedSites {
		uses := 0
		for _, pkg := range p.Pkgs {
			if pkg.Types != f.Pkg() {
				continue
			}
			for _, o := range pkg.TypesInfo.Uses {
				if o == types.Object(f) {
					uses++
				}
			}
		}
		if uses != n {
			continue
		}
		if fd := p.Decl(f); fd != nil {
			start := fd.Pos()
			if fd.Doc != nil {
				start = fd.Doc.Pos()
			}
			a, e := p.Fset.Position(start), p.Fset.Position(fd.End())
			applied[a.Filename] = append(applied[a.Filename], edit{off: a.Offset, n: e.Offset - a.Offset})
		}
	}
	out := map[string][]byte{}
	for k, v := range overlay {
		out[k] = v
	}
	for file, es := range applied {
		src := srcOf(file)
		if src == nil {
			return nil, nil
		}
		sort.Slice(es, func(i, j int) bool { return es[i].off > es[j].off })
		last := len(src) + 1
		for _, e := range es {
			if e.off+e.n > last || e.off+e.n > len(src) {
				continue // a substitution inside a helper that is being removed
			}
			last = e.off
			src = append(append(append([]byte{}, src[:e.off]...), e.text...), src[e.off+e.n:]...)
		}
		out[file] = src
	}
	sort.Strings(notes)
	return out, notes
}

// zeroText: the zero value of t, spelled as an expression.
func zeroText(t types.Type, qual types.Qualifier) string {
	switch u := t.Underlying().(type) {
	case *types.Pointer, *types.Interface, *types.Slice, *types.Map, *types.Chan, *types.Signature:
		return "nil"
	case *types.Basic:
		switch {
		case u.Info()&types.IsBoolean != 0:
			return "false"
		case u.Info()&types.IsString != 0:
			return `""`
		case u.Info()&types.IsNumeric != 0:
			return "0"
		}
	}
	return "*new(" + types.TypeString(t, qual) + ")"
}

func mentionsWord(s, w string) bool {
	for i := 0; i+len(w) <= len(s); i++ {
		if s[i:i+len(w)] != w {
			continue
		}
		before := i == 0 || !isIdentByte(s[i-1])
		after := i+len(w) == len(s) || !isIdentByte(s[i+len(w)])
		if before && after {
			return true
		}
	}
	return false
}

func isIdentByte(c byte) bool {
	return c == '_' || c >= '0' && c <= '9' || c >= 'a' && c <= 'z' || c >= 'A' && c <= 'Z' || c >= 0x80
}
