package main

import (
	"fmt"
	"go/ast"
	"go/token"
	"go/types"
	"os"
	"sort"
	"strings"
)

// Canonicalisation of renames. anchors.json holds an INVENTORY of the reference tree: every
// package-level function and method (receiver, signature), every named type (shape) and every
// struct field (position, type). On every load the inventory is compared with the tree under
// analysis. A name that is missing and a name that is new in the same scope (package / method set /
// struct) with an identical signature, shape or position-and-type are a rename when the match is
// unique; the new identifier is then rewritten to the reference name at every place where the
// type checker resolved it to that object (definitions, uses, selector and literal keys), in an
// in-memory overlay, and the tree is loaded again. Nothing is written to disk. A rename never
// changes behaviour, so analysing the canonical spelling decides the same program.

type invEntry struct {
	kind string // F func/method, T type, V field
	rel  string
	name string // "recv.name", "name", "type.field"
}

func invKey(kind, rel, name string) string { return kind + " " + rel + " " + name }

func typeShape(t *types.TypeName) string {
	u := t.Type().Underlying()
	if st, ok := u.(*types.Struct); ok {
		var fs []string
		for i := 0; i < st.NumFields(); i++ {
			f := st.Field(i)
			e := ""
			if f.Embedded() {
				e = "embedded "
			}
			fs = append(fs, e+f.Type().String())
		}
		n := 0
		if named, ok := t.Type().(*types.Named); ok {
			n = named.NumMethods()
		}
		return fmt.Sprintf("struct{%s} methods=%d", strings.Join(fs, ";"), n)
	}
	if it, ok := u.(*types.Interface); ok {
		var ms []string
		for i := 0; i < it.NumMethods(); i++ {
			ms = append(ms, it.Method(i).Name())
		}
		return "interface{" + strings.Join(ms, ";") + "}"
	}
	return u.String()
}

// inventory of the loaded tree.
func (p *Prog) inventory() map[string]string {
	inv := map[string]string{}
	for _, pkg := range p.Pkgs {
		rel := p.RelPkg(pkg.Types)
		scope := pkg.Types.Scope()
		for _, name := range scope.Names() {
			switch o := scope.Lookup(name).(type) {
			case *types.Func:
				inv[invKey("F", rel, name)] = sigKey(o)
			case *types.Var:
				inv[invKey("G", rel, name)] = "var|" + o.Type().String()
			case *types.Const:
				inv[invKey("G", rel, name)] = "const|" + o.Type().String() + "|" + o.Val().ExactString()
			case *types.TypeName:
				if o.IsAlias() {
					continue
				}
				inv[invKey("T", rel, name)] = typeShape(o)
				if named, ok := o.Type().(*types.Named); ok {
					for i := 0; i < named.NumMethods(); i++ {
						m := named.Method(i)
						inv[invKey("F", rel, name+"."+m.Name())] = sigKey(m)
					}
					if st, ok := named.Underlying().(*types.Struct); ok {
						for i := 0; i < st.NumFields(); i++ {
							f := st.Field(i)
							if !f.Embedded() {
								inv[invKey("V", rel, name+"."+f.Name())] = fmt.Sprintf("%d|%s", i, f.Type().String())
							}
						}
					}
				}
			}
		}
	}
	return inv
}

// renamePlan: object of the current tree -> reference name.
func (p *Prog) renamePlan() (map[types.Object]string, []string) {
	ref := anchorSigs
	if len(ref) == 0 {
		return nil, nil
	}
	cur := p.inventory()
	plan := map[types.Object]string{}
	var notes []string
	// signatures and shapes mention type names: a renamed type changes them. Normalise by mapping
	// current type names to reference names once the type renames are known.
	typeAlias := map[string]string{} // "rel.Current" -> "rel.Reference" (qualified by package path)
	norm := func(s string) string {
		for c, r := range typeAlias {
			s = strings.ReplaceAll(s, c, r)
		}
		return s
	}
	byRel := map[string]bool{}
	for _, pkg := range p.Pkgs {
		byRel[p.RelPkg(pkg.Types)] = true
	}
	exported := func(n string) bool {
		if i := strings.LastIndex(n, "."); i >= 0 {
			n = n[i+1:]
		}
		return n != "" && n[0] >= 'A' && n[0] <= 'Z'
	}
	// ---- types first
	for rel := range byRel {
		var missing, added []string
		for k := range ref {
			if strings.HasPrefix(k, "T "+rel+" ") {
				if _, ok := cur[k]; !ok {
					missing = append(missing, strings.TrimPrefix(k, "T "+rel+" "))
				}
			}
		}
		for k := range cur {
			if strings.HasPrefix(k, "T "+rel+" ") {
				if _, ok := ref[k]; !ok {
					added = append(added, strings.TrimPrefix(k, "T "+rel+" "))
				}
			}
		}
		sort.Strings(missing)
		sort.Strings(added)
		pkg := p.ByRel[rel]
		for _, m := range missing {
			if exported(m) {
				continue // renaming exported API is not behaviour-preserving for users
			}
			var cand []string
			for _, a := range added {
				// compare shapes with the candidate's own name mapped to the missing one
				shape := strings.ReplaceAll(cur[invKey("T", rel, a)], pkg.PkgPath+"."+a, pkg.PkgPath+"."+m)
				if sigMatches(shape, ref[invKey("T", rel, m)]) {
					cand = append(cand, a)
				}
			}
			if len(cand) == 1 {
				if o := pkg.Types.Scope().Lookup(cand[0]); o != nil {
					plan[o] = m
					typeAlias[pkg.PkgPath+"."+cand[0]] = pkg.PkgPath + "." + m
					notes = append(notes, fmt.Sprintf("type %s.%s -> %s", rel, cand[0], m))
				}
			}
		}
	}
	curTypeOf := func(rel, refType string) *types.TypeName {
		pkg := p.ByRel[rel]
		for o, r := range plan {
			if tn, ok := o.(*types.TypeName); ok && r == refType && tn.Pkg() == pkg.Types {
				return tn
			}
		}
		tn, _ := pkg.Types.Scope().Lookup(refType).(*types.TypeName)
		return tn
	}
	// ---- functions, methods, fields: per scope (package / type)
	type scopeKey struct{ kind, rel, typ string }
	missing := map[scopeKey][]string{}
	for k := range ref {
		parts := strings.SplitN(k, " ", 3)
		if len(parts) != 3 {
			continue
		}
		kind, rel, name := parts[0], parts[1], parts[2]
		if kind == "T" || !byRel[rel] {
			continue
		}
		typ, base := "", name
		if i := strings.Index(name, "."); i >= 0 {
			typ, base = name[:i], name[i+1:]
		}
		if exported(base) {
			continue
		}
		// does it still exist (under the current name of its type)?
		exists := false
		if typ == "" {
			_, exists = cur[k]
		} else if tn := curTypeOf(rel, typ); tn != nil {
			_, exists = cur[invKey(kind, rel, tn.Name()+"."+base)]
		} else {
			continue
		}
		if !exists {
			missing[scopeKey{kind, rel, typ}] = append(missing[scopeKey{kind, rel, typ}], base)
		}
	}
	for sk, ms := range missing {
		sort.Strings(ms)
		pkg := p.ByRel[sk.rel]
		curType := sk.typ
		var tn *types.TypeName
		if sk.typ != "" {
			tn = curTypeOf(sk.rel, sk.typ)
			if tn == nil {
				continue
			}
			curType = tn.Name()
		}
		prefix := sk.kind + " " + sk.rel + " "
		if curType != "" {
			prefix += curType + "."
		}
		refPrefix := sk.kind + " " + sk.rel + " "
		if sk.typ != "" {
			refPrefix += sk.typ + "."
		}
		var added []string
		for k := range cur {
			if !strings.HasPrefix(k, prefix) {
				continue
			}
			base := strings.TrimPrefix(k, prefix)
			if curType == "" && strings.Contains(base, ".") {
				continue
			}
			if _, ok := ref[refPrefix+base]; !ok {
				added = append(added, base)
			}
		}
		sort.Strings(added)
		used := map[string]bool{}
		for _, m := range ms {
			want := ref[refPrefix+m]
			var cand []string
			for _, a := range added {
				if used[a] {
					continue
				}
				got := norm(cur[prefix+a])
				if sk.kind == "F" && curType != sk.typ {
					got = strings.Replace(got, curType+"(", sk.typ+"(", 1)
				}
				if sigMatches(got, want) {
					cand = append(cand, a)
				}
			}
			if len(cand) != 1 {
				continue
			}
			used[cand[0]] = true
			var obj types.Object
			switch {
			case (sk.kind == "F" || sk.kind == "G") && tn == nil:
				obj = pkg.Types.Scope().Lookup(cand[0])
			case sk.kind == "F":
				o, _, _ := types.LookupFieldOrMethod(types.NewPointer(tn.Type()), true, pkg.Types, cand[0])
				obj = o
			case sk.kind == "V":
				if st, ok := tn.Type().Underlying().(*types.Struct); ok {
					for i := 0; i < st.NumFields(); i++ {
						if st.Field(i).Name() == cand[0] {
							obj = st.Field(i)
						}
					}
				}
			}
			if obj != nil {
				plan[obj] = m
				notes = append(notes, fmt.Sprintf("%s %s %s%s -> %s", map[string]string{"F": "func", "V": "field", "G": "package-level name"}[sk.kind], sk.rel, map[bool]string{true: curType + ".", false: ""}[curType != ""], cand[0], m))
			}
		}
	}
	sort.Strings(notes)
	return plan, notes
}

// canonicalOverlay rewrites every identifier that resolves to a renamed object back to its
// reference name (in memory).
func (p *Prog) canonicalOverlay(overlay map[string][]byte) (map[string][]byte, []string) {
	plan, notes := p.renamePlan()
	if len(plan) == 0 {
		return nil, nil
	}
	type edit struct {
		off, n int
		text   string
	}
	edits := map[string][]edit{}
	add := func(id *ast.Ident, name string) {
		pos := p.Fset.Position(id.Pos())
		if pos.Filename == "" || id.Name == name {
			return
		}
		edits[pos.Filename] = append(edits[pos.Filename], edit{pos.Offset, len(id.Name), name})
	}
	for _, pkg := range p.Pkgs {
		for id, o := range pkg.TypesInfo.Defs {
			if o != nil {
				if n, ok := plan[o]; ok {
					add(id, n)
				}
			}
		}
		for id, o := range pkg.TypesInfo.Uses {
			if n, ok := plan[o]; ok {
				add(id, n)
			}
			// a method or field reached through an instantiated / embedded origin
			if f, ok := o.(*types.Func); ok {
				if n, ok := plan[f.Origin()]; ok {
					add(id, n)
				}
			}
			if v, ok := o.(*types.Var); ok && v.IsField() {
				if n, ok := plan[v.Origin()]; ok {
					add(id, n)
				}
			}
		}
	}
	out := map[string][]byte{}
	for k, v := range overlay {
		out[k] = v
	}
	for file, es := range edits {
		src, ok := out[file]
		if !ok {
			b, err := os.ReadFile(file)
			if err != nil {
				return nil, nil
			}
			src = b
		}
		sort.Slice(es, func(i, j int) bool { return es[i].off > es[j].off })
		last := -1
		for _, e := range es {
			if e.off == last || e.off+e.n > len(src) {
				continue
			}
			last = e.off
			src = append(append(append([]byte{}, src[:e.off]...), e.text...), src[e.off+e.n:]...)
		}
		out[file] = src
	}
	_ = token.NoPos
	return out, notes
}

// sigMatches: the reference inventory may hold several signatures for one name ("new||older"): the repairs made to the
// reference tree changed a few signatures, and a tree that predates such a repair is still recognised
func sigMatches(got, want string) bool {
	for _, w := range strings.Split(want, "||") {
		if got == w {
			return true
		}
	}
	return false
}
