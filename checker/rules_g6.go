package main

import (
	"fmt"
	"go/ast"
	"go/token"
	"go/types"
	"sort"
	"strings"
)

// G6 pool reset exhaustiveness, G6r Reset clears the class table in both modes,
// B3b bulk reference registration does not reorder indices.

func init() {
	register("G6", "every field of Decoder/Encoder is (may-)assigned on the FreeDecoder/FreeEncoder path, so no reference table, option, buffer or error of one pooled use is visible in the next (field set computed from the struct types)", 20, ruleG6)
	register("G6r", "Encoder.Reset and Decoder.Reset clear the class table (ref/last) on every path in BOTH modes: the reset that separates messages / RPC segments is not control-dependent on the simple flag", 3, ruleG6r)
	register("B3b", "a bulk AddReferenceCount(n) placed before a loop is only used when the loop body registers no further references (otherwise rows are numbered before their contents and every index inside them shifts)", 14, ruleB3b)
}

// fieldsAssignedIn: receiver fields (may-)assigned in the body of f and, transitively, in the
// repo methods it calls on the same receiver chain.
func (p *Prog) fieldsMayAssigned(f *types.Func, seen map[*types.Func]bool, out map[string]bool) {
	if f == nil || seen[f] {
		return
	}
	seen[f] = true
	fd := p.Decl(f)
	if fd == nil || fd.Body == nil {
		return
	}
	info := p.PkgOfDecl(fd).TypesInfo
	ast.Inspect(fd.Body, func(n ast.Node) bool {
		switch x := n.(type) {
		case *ast.AssignStmt:
			for _, l := range x.Lhs {
				if fv := fieldOf(info, l); fv != nil {
					out[fv.Name()] = true
				}
				// dec.buf[..] = / index writes do not reset
			}
		case *ast.RangeStmt:
			// for k := range x.f { delete(x.f, k) }
			if fv := fieldOf(info, x.X); fv != nil {
				ast.Inspect(x.Body, func(m ast.Node) bool {
					if c, ok := m.(*ast.CallExpr); ok && IsBuiltin(info, c, "delete") && len(c.Args) == 2 && fieldOf(info, c.Args[0]) == fv {
						out[fv.Name()] = true
					}
					return true
				})
			}
		case *ast.CallExpr:
			if g := Callee(info, x); g != nil && p.InRepo(g) {
				// method on a field value: x.refer.Reset() resets field refer
				if se, ok := ast.Unparen(x.Fun).(*ast.SelectorExpr); ok {
					if fv := fieldOf(info, se.X); fv != nil && g.Name() == "Reset" {
						out[fv.Name()] = true
					}
				}
				p.fieldsMayAssigned(g, seen, out)
			}
		}
		return true
	})
}

var g6Exempt = map[string]string{
	"Encoder.addr": "copy-check self pointer, identical for every use of the same object",
}

func ruleG6(r *Run) {
	p := r.P
	for _, c := range []struct{ typ, free string }{{"Encoder", "FreeEncoder"}, {"Decoder", "FreeDecoder"}} {
		free := p.LookupFunc("io", c.free)
		tn, _ := p.LookupObj("io", c.typ).(*types.TypeName)
		if free == nil || tn == nil {
			r.Undec("anchors "+c.typ, 0, c.free+" or "+c.typ+" not found")
			continue
		}
		assigned := map[string]bool{}
		p.fieldsMayAssigned(free, map[*types.Func]bool{}, assigned)
		st := tn.Type().Underlying().(*types.Struct)
		for i := 0; i < st.NumFields(); i++ {
			f := st.Field(i)
			key := fmt.Sprintf("reset on release %s.%s", c.typ, f.Name())
			switch {
			case assigned[f.Name()]:
				r.Ok(key, f.Pos(), "assigned on the "+c.free+" path")
			case g6Exempt[c.typ+"."+f.Name()] != "":
				r.Ok(key, f.Pos(), "frozen exemption: "+g6Exempt[c.typ+"."+f.Name()])
			default:
				r.Viol(key, f.Pos(), fmt.Sprintf("field %s.%s is not reset anywhere on the %s path: its value from one pooled use is visible in the next", c.typ, f.Name(), c.free))
			}
		}
	}
}

type touchState struct{ set map[string]bool }

func (s *touchState) Key() string {
	var k []string
	for f := range s.set {
		k = append(k, f)
	}
	sort.Strings(k)
	return strings.Join(k, ",")
}
func (s *touchState) Copy() PState {
	n := &touchState{set: map[string]bool{}}
	for k := range s.set {
		n.set[k] = true
	}
	return n
}

func ruleG6r(r *Run) {
	p := r.P
	for _, c := range []struct {
		fn   string
		must []string
	}{{"Encoder.Reset", []string{"ref", "last"}}, {"Decoder.Reset", []string{"ref"}}} {
		fd, pkg := p.DeclOf("io", c.fn)
		if fd == nil {
			r.Undec("reset "+c.fn, 0, "not found")
			continue
		}
		info := pkg.TypesInfo
		w := &Walk{Info: info}
		missing := map[string]bool{}
		touch := func(ps PState, name string) []PState {
			ns := ps.Copy().(*touchState)
			ns.set[name] = true
			return []PState{ns}
		}
		w.Event = func(w *Walk, ps PState, n ast.Node) []PState {
			switch x := n.(type) {
			case *ast.AssignStmt:
				for _, l := range x.Lhs {
					if fv := fieldOf(info, l); fv != nil {
						return touch(ps, fv.Name())
					}
				}
			case *ast.RangeStmt:
				if fv := fieldOf(info, x.X); fv != nil {
					cleared := false
					ast.Inspect(x.Body, func(m ast.Node) bool {
						if cl, ok := m.(*ast.CallExpr); ok && IsBuiltin(info, cl, "delete") && len(cl.Args) == 2 && fieldOf(info, cl.Args[0]) == fv {
							cleared = true
						}
						return true
					})
					if cleared {
						return touch(ps, fv.Name())
					}
				}
			}
			return nil
		}
		// a `for k := range m { delete(m,k) }` loop clears m whether or not the body runs
		w.Loop = func(w *Walk, ps PState, loop ast.Stmt, body func(PState) []LoopOut) ([]PState, bool) {
			if rs, ok := loop.(*ast.RangeStmt); ok {
				if fv := fieldOf(info, rs.X); fv != nil {
					cleared := false
					ast.Inspect(rs.Body, func(m ast.Node) bool {
						if cl, ok := m.(*ast.CallExpr); ok && IsBuiltin(info, cl, "delete") && len(cl.Args) == 2 && fieldOf(info, cl.Args[0]) == fv {
							cleared = true
						}
						return true
					})
					if cleared {
						return touch(ps, fv.Name()), true
					}
				}
			}
			return nil, false
		}
		w.Exit = func(w *Walk, ps PState, kind flowKind, at ast.Node) {
			st := ps.(*touchState)
			for _, m := range c.must {
				if !st.set[m] {
					missing[m] = true
				}
			}
		}
		w.Run(fd.Body, &touchState{set: map[string]bool{}})
		for _, m := range c.must {
			key := fmt.Sprintf("reset %s clears %s on every path", c.fn, m)
			if len(w.Undecided) > 0 {
				r.Undec(key, fd.Pos(), strings.Join(w.Undecided, "; "))
			} else if missing[m] {
				r.Viol(key, fd.Pos(), fmt.Sprintf("%s leaves the class table field %s untouched on some path (e.g. only in one mode): the next message on this coder refers to class definitions that are not in its stream", c.fn, m))
			} else {
				r.Ok(key, fd.Pos(), "cleared on every path in both modes")
			}
		}
	}
}

// mayRegisterEnc: calling f may RECORD a reference index (refer.Set / SetString, or any nested dynamic coder)
func (p *Prog) mayRegisterEnc(f *types.Func, memo map[*types.Func]int, depth int) bool {
	if v, ok := memo[f]; ok {
		return v == 1
	}
	memo[f] = 0
	// only RECORDING an index matters: AddCount merely advances the counter, and a span in which
	// nothing is recorded can be counted in any order (rows of complex numbers)
	if p.namedIO(recvType(f), "encoderRefer") && (f.Name() == "Set" || f.Name() == "SetString") {
		memo[f] = 1
		return true
	}
	fd := p.Decl(f)
	if fd == nil || fd.Body == nil || depth > 12 {
		return false
	}
	info := p.PkgOfDecl(fd).TypesInfo
	res := false
	ast.Inspect(fd.Body, func(n ast.Node) bool {
		if res {
			return false
		}
		call, ok := n.(*ast.CallExpr)
		if !ok {
			return true
		}
		if p.isDynamicCoderCall(info, call) {
			res = true
			return false
		}
		if g := Callee(info, call); g != nil && p.InRepo(g) && p.mayRegisterEnc(g, memo, depth+1) {
			res = true
			return false
		}
		return true
	})
	if res {
		memo[f] = 1
	}
	return res
}

func ruleB3b(r *Run) {
	p := r.P
	pkg := p.Pkg("io")
	info := pkg.TypesInfo
	memo := map[*types.Func]int{}
	for _, file := range pkg.Syntax {
		for _, d := range file.Decls {
			fd, ok := d.(*ast.FuncDecl)
			if !ok || fd.Body == nil {
				continue
			}
			fname := p.DeclName(fd)
			ast.Inspect(fd.Body, func(n ast.Node) bool {
				blk, ok := n.(*ast.BlockStmt)
				if !ok {
					return true
				}
				for i, s := range blk.List {
					es, ok := s.(*ast.ExprStmt)
					if !ok {
						continue
					}
					call, ok := es.X.(*ast.CallExpr)
					if !ok {
						continue
					}
					g := Callee(info, call)
					if g == nil || !p.InRepo(g) || p.FuncName(g) != "io.Encoder.AddReferenceCount" || len(call.Args) != 1 {
						continue
					}
					if _, isConst := intConst(info, call.Args[0]); isConst {
						continue
					}
					// bulk registration: look at the loops that follow in this block
					for _, s2 := range blk.List[i+1:] {
						var body *ast.BlockStmt
						switch l := s2.(type) {
						case *ast.ForStmt:
							body = l.Body
						case *ast.RangeStmt:
							body = l.Body
						}
						if body == nil {
							continue
						}
						key := "bulk registration " + fname
						var offender string
						var opos token.Pos
						ast.Inspect(body, func(m ast.Node) bool {
							if offender != "" {
								return false
							}
							c2, ok := m.(*ast.CallExpr)
							if !ok {
								return true
							}
							if p.isDynamicCoderCall(info, c2) {
								offender, opos = types.ExprString(c2.Fun), c2.Pos()
								return false
							}
							if h := Callee(info, c2); h != nil && p.InRepo(h) && p.mayRegisterEnc(h, memo, 0) {
								offender, opos = p.FuncName(h), c2.Pos()
								return false
							}
							return true
						})
						if offender != "" {
							r.Viol(key, opos, fmt.Sprintf("references for all %s rows are counted up front, but the loop body calls %s which can record reference indices of its own: the encoder numbers the rows before their contents while the decoder numbers in wire order, so back-references into or after a row resolve to the wrong item", types.ExprString(call.Args[0]), offender))
						} else {
							r.Ok(key, call.Pos(), "loop body records no reference index")
						}
					}
				}
				return true
			})
		}
	}
}
