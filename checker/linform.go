package main

import (
	"fmt"
	"sort"
	"strings"
)

// lin is a linear form c + sum(k_i * sym_i) over symbolic counts (parameters, len(x), ...).
type lin struct {
	c    int64
	syms map[string]int64
}

func linConst(c int64) lin { return lin{c: c} }
func linSym(s string) lin  { return lin{syms: map[string]int64{s: 1}} }

func (a lin) add(b lin) lin {
	r := lin{c: a.c + b.c}
	if len(a.syms)+len(b.syms) > 0 {
		r.syms = map[string]int64{}
		for k, v := range a.syms {
			r.syms[k] += v
		}
		for k, v := range b.syms {
			r.syms[k] += v
		}
		for k, v := range r.syms {
			if v == 0 {
				delete(r.syms, k)
			}
		}
	}
	return r
}

func (a lin) scale(k int64) lin {
	r := lin{c: a.c * k}
	if k != 0 && len(a.syms) > 0 {
		r.syms = map[string]int64{}
		for s, v := range a.syms {
			r.syms[s] = v * k
		}
	}
	return r
}

func (a lin) neg() lin      { return a.scale(-1) }
func (a lin) sub(b lin) lin { return a.add(b.neg()) }
func (a lin) isZero() bool  { return a.c == 0 && len(a.syms) == 0 }
func (a lin) isConst() bool { return len(a.syms) == 0 }

func (a lin) String() string {
	var ks []string
	for k := range a.syms {
		ks = append(ks, k)
	}
	sort.Strings(ks)
	var parts []string
	if a.c != 0 || len(ks) == 0 {
		parts = append(parts, fmt.Sprintf("%+d", a.c))
	}
	for _, k := range ks {
		v := a.syms[k]
		switch v {
		case 1:
			parts = append(parts, "+"+k)
		case -1:
			parts = append(parts, "-"+k)
		default:
			parts = append(parts, fmt.Sprintf("%+d*%s", v, k))
		}
	}
	return strings.Join(parts, " ")
}

// subst replaces symbols by linear forms.
func (a lin) subst(m map[string]lin) lin {
	r := linConst(a.c)
	for s, k := range a.syms {
		if v, ok := m[s]; ok {
			r = r.add(v.scale(k))
		} else {
			r = r.add(linSym(s).scale(k))
		}
	}
	return r
}
