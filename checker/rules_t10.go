package main

import (
	"go/ast"
	"go/token"
	"go/types"
	"strings"
)

// T10 struct field discovery (C01, C06): the one function both the struct encoder and the struct
// decoder take their field tables from.

func init() {
	register("T10", "struct field discovery (_getFields): an embedded struct is flattened before (and independently of) the exported-field test and its fields are re-based by the embedding field's offset or index path; a field reaches the table only if it is exported, not aliased \"-\", not a duplicate alias, and has both an encode and a decode handler, and its alias is recorded when it is appended", 7, ruleT10)
}

func ruleT10(r *Run) {
	p := r.P
	fd, pkg := p.DeclOf("io", "_getFields")
	if fd == nil {
		r.Undec("io._getFields", 0, "not found")
		return
	}
	info := pkg.TypesInfo
	self, _ := info.Defs[fd.Name].(*types.Func)
	parents := parentMap(fd.Body)
	mentions := func(n ast.Node, method string) bool {
		found := false
		ast.Inspect(n, func(m ast.Node) bool {
			if c, ok := m.(*ast.CallExpr); ok && methodName(c) == method {
				found = true
			}
			return true
		})
		return found
	}
	// the recursive flattening call
	var rec *ast.CallExpr
	ast.Inspect(fd.Body, func(n ast.Node) bool {
		if c, ok := n.(*ast.CallExpr); ok && Callee(info, c) == self {
			rec = c
		}
		return true
	})
	if rec == nil {
		r.Viol("embedded structs are flattened", fd.Pos(), "_getFields no longer recurses into embedded structs: their promoted fields are not serialized")
	} else {
		facts := collectFacts(parents, rec)
		anon, guardedByExport := false, false
		for _, fc := range facts {
			if mentions(fc.e, "Anonymous") && !fc.neg {
				anon = true
			}
			if mentions(fc.e, "PkgPath") {
				guardedByExport = true
			}
		}
		r.Check(anon, "embedded structs are flattened", rec.Pos(), "recursion under f.Anonymous()", "the recursion into a struct-typed field is no longer limited to embedded (anonymous) fields")
		r.Check(!guardedByExport, "flattening is independent of the embedding field's exportedness", rec.Pos(), "no PkgPath test on the path to the recursion", "the exported-field test now runs before embedded structs are flattened: embedding a struct of an unexported type (whose field is itself unexported) silently drops its promoted exported fields from the wire")
		// re-basing: the clause that recurses consults the embedding field's Offset() or Index()
		var clause ast.Node = rec
		for n := parents[rec]; n != nil; n = parents[n] {
			if ifs, ok := n.(*ast.IfStmt); ok && mentions(ifs.Cond, "Anonymous") {
				clause = ifs
				break
			}
		}
		r.Check(mentions(clause, "Offset") || mentions(clause, "Index"), "flattened fields are re-based on the enclosing struct", rec.Pos(), "uses the embedding field's Offset()/Index()", "the accessors collected from an embedded struct are used with a pointer to the enclosing struct but the embedding field's offset is never consulted: for an embedded struct that is not the first member the encoder and decoder read and write the wrong memory")
	}
	// the append site
	var app *ast.CallExpr
	ast.Inspect(fd.Body, func(n ast.Node) bool {
		if c, ok := n.(*ast.CallExpr); ok && IsBuiltin(info, c, "append") && len(c.Args) == 2 {
			if o := identObj(info, c.Args[0]); o != nil && o.Name() == "fields" {
				app = c
			}
		}
		return true
	})
	if app == nil {
		r.Undec("field append site", fd.Pos(), "no fields = append(fields, field)")
		return
	}
	facts := collectFacts(parents, app)
	has := func(pred func(fc condFact) bool) bool {
		for _, fc := range facts {
			if pred(fc) {
				return true
			}
		}
		return false
	}
	str := func(e ast.Expr) string { return types.ExprString(e) }
	r.Check(has(func(fc condFact) bool {
		be, ok := fc.e.(*ast.BinaryExpr)
		return ok && fc.neg && be.Op == token.NEQ && mentions(be.X, "PkgPath") && str(be.Y) == `""`
	}), "only exported fields are serialized", app.Pos(), `if f.PkgPath() != "" { continue }`, "unexported fields reach the field table: reflect2 reads and writes them through unsafe pointers, bypassing Go's visibility")
	r.Check(has(func(fc condFact) bool {
		be, ok := fc.e.(*ast.BinaryExpr)
		return ok && fc.neg && be.Op == token.EQL && str(be.Y) == `"-"`
	}), "fields aliased \"-\" are skipped", app.Pos(), `if name == "-" { continue }`, "a field tagged \"-\" is serialized")
	dupPanics := false
	ast.Inspect(fd.Body, func(n ast.Node) bool {
		if ifs, ok := n.(*ast.IfStmt); ok && ifs.Init != nil {
			if as, ok := ifs.Init.(*ast.AssignStmt); ok && len(as.Rhs) == 1 && len(as.Lhs) == 2 && identObj(info, ifs.Cond) == identObj(info, as.Lhs[1]) && identObj(info, ifs.Cond) != nil {
				if ie, ok := ast.Unparen(as.Rhs[0]).(*ast.IndexExpr); ok {
					if o := identObj(info, ie.X); o != nil && isAliasSet(o) {
						ast.Inspect(ifs.Body, func(m ast.Node) bool {
							if c, ok := m.(*ast.CallExpr); ok && IsBuiltin(info, c, "panic") {
								dupPanics = true
							}
							return true
						})
					}
				}
			}
		}
		return true
	})
	r.Check(dupPanics, "duplicate aliases are rejected", app.Pos(), "panic on mapping[name]", "two fields with the same alias are both written: the decoder keeps only one of them")
	for _, h := range []string{"Encode", "Decode"} {
		h := h
		r.Check(has(func(fc condFact) bool {
			be, ok := fc.e.(*ast.BinaryExpr)
			if !ok || !fc.neg || be.Op != token.EQL || str(be.Y) != "nil" {
				return false
			}
			se, ok := ast.Unparen(be.X).(*ast.SelectorExpr)
			return ok && se.Sel.Name == h
		}), "a field needs a "+strings.ToLower(h)+" handler to be in the table", app.Pos(), "if field."+h+" == nil { continue }", "a field without "+strings.ToLower(h)+" handler reaches the table: the encoder and decoder disagree on the field set, or a nil handler is called")
	}
	// alias recorded next to the append
	rec2 := false
	if blk, ok := parents[parents[app]].(*ast.BlockStmt); ok {
		for _, s := range blk.List {
			if as, ok := s.(*ast.AssignStmt); ok && len(as.Lhs) == 1 {
				if ie, ok := ast.Unparen(as.Lhs[0]).(*ast.IndexExpr); ok {
					if o := identObj(info, ie.X); o != nil && isAliasSet(o) {
						rec2 = true
					}
				}
			}
		}
	}
	r.Check(rec2, "the alias of an appended field is recorded", app.Pos(), "mapping[name] = struct{}{}", "aliases are no longer recorded, so duplicate aliases are not detected")
}

// isAliasSet: the set of aliases already taken - a map from string to struct{} (whatever it is called)
func isAliasSet(o types.Object) bool {
	m, ok := o.Type().Underlying().(*types.Map)
	if !ok {
		return false
	}
	if b, ok := m.Key().Underlying().(*types.Basic); !ok || b.Kind() != types.String {
		return false
	}
	st, ok := m.Elem().Underlying().(*types.Struct)
	return ok && st.NumFields() == 0
}
