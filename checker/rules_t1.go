package main

import (
	"fmt"
	"go/ast"
	"go/token"
	"go/types"
	"sort"
	"strings"

	"golang.org/x/tools/go/packages"
)

// T1 kind/cast agreement and T2 route agreement (DESIGN.md section 3, family T).

func init() {
	register("T1", "every unsafe.Pointer cast bound to a reflect.Kind slot (kind-keyed table, kind switch, converter map, explicit registration) has the slot's kind, size and indirection depth; ParseInt/ParseUint bit sizes equal the width of the destination", 200, ruleT1)
	register("T2", "for every destination kind and depth, all dispatch routes (fast type switches, handler tables, factory tables, registrations) end in one and the same decode routine", 36, ruleT2)
}

type castSite struct {
	pos    token.Pos
	target types.Type
	param  int         // index of the parameter the pointer derives from, -1 if unbound
	callee *types.Func // function the cast value is passed to (T2), if any
	fn     string
}

// originParam follows an unsafe.Pointer-typed expression back to a parameter of fb.
func originParam(fb *funcBody, defs map[types.Object]ast.Expr, e ast.Expr, depth int) int {
	if depth > 6 {
		return -1
	}
	info := fb.Pkg.TypesInfo
	switch x := ast.Unparen(e).(type) {
	case *ast.Ident:
		obj := info.Uses[x]
		if obj == nil {
			return -1
		}
		for i, p := range fb.Params {
			if p != nil && p == obj {
				return i
			}
		}
		if d, ok := defs[obj]; ok && d != nil {
			return originParam(fb, defs, d, depth+1)
		}
	case *ast.CallExpr:
		if _, ok := isConversion(info, x); ok {
			return originParam(fb, defs, x.Args[0], depth+1)
		}
		if f := Callee(info, x); f != nil && f.Pkg() != nil && f.Pkg().Path() == "github.com/modern-go/reflect2" &&
			(f.Name() == "PtrOf" || f.Name() == "NoEscape") && len(x.Args) == 1 {
			return originParam(fb, defs, x.Args[0], depth+1)
		}
	}
	return -1
}

// localDefs maps local variables defined exactly once (x := e / var x = e) to e.
func localDefs(info *types.Info, body ast.Node) map[types.Object]ast.Expr {
	defs := map[types.Object]ast.Expr{}
	count := map[types.Object]int{}
	ast.Inspect(body, func(n ast.Node) bool {
		switch s := n.(type) {
		case *ast.AssignStmt:
			if len(s.Lhs) == len(s.Rhs) {
				for i, l := range s.Lhs {
					if id, ok := l.(*ast.Ident); ok {
						obj := info.Defs[id]
						if obj == nil {
							obj = info.Uses[id]
						}
						if obj != nil {
							count[obj]++
							defs[obj] = s.Rhs[i]
						}
					}
				}
			} else {
				// a, b := helper(): remembered so that rootObj can look through a repository
				// helper that merely hands out fields (multiDefs, util_inline.go)
				var mcall *ast.CallExpr
				if len(s.Rhs) == 1 {
					mcall, _ = ast.Unparen(s.Rhs[0]).(*ast.CallExpr)
				}
				for i, l := range s.Lhs {
					if id, ok := l.(*ast.Ident); ok {
						obj := info.Defs[id]
						if obj == nil {
							obj = info.Uses[id]
						}
						if obj != nil {
							count[obj] += 2
							if mcall != nil && s.Tok == token.DEFINE {
								multiDefs[obj] = multiDef{mcall, i}
							}
						}
					}
				}
			}
		case *ast.ValueSpec:
			for i, id := range s.Names {
				if obj := info.Defs[id]; obj != nil {
					// `var x T` without a value only gives the name: with ONE assignment behind it, that assignment is the
					// definition (the spelling named results and hoisted declarations produce)
					if i < len(s.Values) {
						count[obj]++
						defs[obj] = s.Values[i]
					}
				}
			}
		case *ast.IncDecStmt:
			if id, ok := s.X.(*ast.Ident); ok {
				if obj := info.Uses[id]; obj != nil {
					count[obj] += 2
				}
			}
		case *ast.RangeStmt:
			for _, e := range []ast.Expr{s.Key, s.Value} {
				if id, ok := e.(*ast.Ident); ok {
					if obj := info.Defs[id]; obj != nil {
						count[obj] += 2
					}
				}
			}
		}
		return true
	})
	for o, c := range count {
		if c != 1 {
			delete(defs, o)
		}
	}
	return defs
}

func collectCasts(fb *funcBody) []castSite {
	info := fb.Pkg.TypesInfo
	defs := localDefs(info, fb.Body)
	parents := parentMap(fb.Body)
	var out []castSite
	ast.Inspect(fb.Body, func(n ast.Node) bool {
		call, ok := n.(*ast.CallExpr)
		if !ok {
			return true
		}
		tgt, ok := isConversion(info, call)
		if !ok {
			return true
		}
		if _, isPtr := tgt.Underlying().(*types.Pointer); !isPtr {
			return true
		}
		at := info.TypeOf(call.Args[0])
		if at == nil || !isUnsafePointer(at) {
			return true
		}
		cs := castSite{pos: call.Pos(), target: tgt, fn: fb.Name, param: originParam(fb, defs, call.Args[0], 0)}
		// is the cast (or a local holding it) an argument of a call?
		var node ast.Node = call
		for {
			p := parents[node]
			if pe, ok := p.(*ast.ParenExpr); ok {
				node = pe
				continue
			}
			if pc, ok := p.(*ast.CallExpr); ok {
				for _, a := range pc.Args {
					if a == node {
						cs.callee = Callee(info, pc)
					}
				}
			}
			break
		}
		out = append(out, cs)
		return true
	})
	return out
}

// basic kinds by reflect.Kind name
var kindBasic = map[string]types.BasicKind{
	"Bool": types.Bool, "Int": types.Int, "Int8": types.Int8, "Int16": types.Int16, "Int32": types.Int32, "Int64": types.Int64,
	"Uint": types.Uint, "Uint8": types.Uint8, "Uint16": types.Uint16, "Uint32": types.Uint32, "Uint64": types.Uint64, "Uintptr": types.Uintptr,
	"Float32": types.Float32, "Float64": types.Float64, "Complex64": types.Complex64, "Complex128": types.Complex128, "String": types.String,
}

func numClass(b *types.Basic) string {
	switch {
	case b.Info()&types.IsBoolean != 0:
		return "bool"
	case b.Info()&types.IsUnsigned != 0:
		return "uint"
	case b.Info()&types.IsInteger != 0:
		return "int"
	case b.Info()&types.IsFloat != 0:
		return "float"
	case b.Info()&types.IsComplex != 0:
		return "complex"
	case b.Info()&types.IsString != 0:
		return "string"
	}
	return "?"
}

// kindFits: may memory of reflect.Kind `kind` be accessed through base type b?
func kindFits(kind string, b types.Type, sizes types.Sizes) (bool, string) {
	u := b.Underlying()
	if bk, ok := kindBasic[kind]; ok {
		ub, ok := u.(*types.Basic)
		if !ok {
			return false, fmt.Sprintf("%s is not a basic type", typeKey(b))
		}
		want := types.Typ[bk]
		if numClass(ub) != numClass(want) {
			return false, fmt.Sprintf("%s is of class %s, the slot holds %s", typeKey(b), numClass(ub), numClass(want))
		}
		if sizes.Sizeof(ub) != sizes.Sizeof(want) {
			return false, fmt.Sprintf("%s is %d bytes wide, the slot's %s is %d", typeKey(b), sizes.Sizeof(ub), strings.ToLower(kind), sizes.Sizeof(want))
		}
		return true, ""
	}
	switch kind {
	case "Interface":
		if it, ok := u.(*types.Interface); ok && it.NumMethods() == 0 {
			return true, ""
		}
		return false, typeKey(b) + " is not interface{}"
	case "Slice":
		if _, ok := u.(*types.Slice); ok {
			return true, ""
		}
		if isNamed(b, "reflect", "SliceHeader") || strings.HasSuffix(typeKey(b), "sliceHeader") || isUnsafePointer(b) {
			return true, ""
		}
		return false, typeKey(b) + " is not slice shaped"
	case "Array":
		if _, ok := u.(*types.Array); ok {
			return true, ""
		}
		return false, typeKey(b) + " is not an array"
	case "Struct":
		if _, ok := u.(*types.Struct); ok {
			return true, ""
		}
		return false, typeKey(b) + " is not a struct"
	case "Ptr", "Map", "Chan", "Func", "UnsafePointer":
		switch u.(type) {
		case *types.Pointer, *types.Map, *types.Chan, *types.Signature:
			return true, ""
		}
		if isUnsafePointer(b) {
			return true, ""
		}
		return false, typeKey(b) + " is not pointer shaped"
	}
	return false, "unknown kind " + kind
}

// t1slot is a piece of code bound to a kind (or exact type) by the repository's own tables.
type t1slot struct {
	table string   // "decodePtrHandlers", "switch@Encoder.writeValue", "fastConverterMap", "register:bigIntType"
	kinds []string // reflect.Kind names of the slot (empty when exact != nil)
	// per-parameter override (converter map: o=source, p=destination)
	kindsByParam map[int][]string
	exact        types.Type // registration for an explicit type: cast must be *exact
	exactByParam map[int]types.Type
	bodies       []*funcBody
	pos          token.Pos
}

// boundBodies resolves a table value / clause body to the function bodies bound to the slot.
func (p *Prog) boundBodies(pkg *packages.Package, e ast.Expr, name string, seen map[ast.Node]bool) []*funcBody {
	info := pkg.TypesInfo
	var out []*funcBody
	addDecl := func(fd *ast.FuncDecl) {
		if fd == nil || seen[fd] {
			return
		}
		seen[fd] = true
		fb := p.bodyOfDecl(fd)
		if fb == nil {
			return
		}
		out = append(out, fb)
		out = append(out, p.factoryProducts(fb, seen)...)
	}
	switch x := ast.Unparen(e).(type) {
	case *ast.FuncLit:
		if seen[x] {
			return nil
		}
		seen[x] = true
		fb := p.bodyOfLit(pkg, x, name+"$lit")
		out = append(out, fb)
		out = append(out, p.factoryProducts(fb, seen)...)
	case *ast.Ident, *ast.SelectorExpr:
		if f, ok := objOf(info, x).(*types.Func); ok && p.InRepo(f) {
			addDecl(p.Decl(f))
		}
	case *ast.CompositeLit:
		// a coder value: its methods are bound
		if t := info.TypeOf(x); t != nil {
			for _, fd := range p.methodsOf(t) {
				addDecl(fd)
			}
		}
	}
	return out
}

// factoryProducts: when a bound function directly returns a composite literal of a named repo
// type (valueDecoderFactories: `return int8Decoder{t}`), that type's methods are bound too.
func (p *Prog) factoryProducts(fb *funcBody, seen map[ast.Node]bool) []*funcBody {
	info := fb.Pkg.TypesInfo
	var out []*funcBody
	ast.Inspect(fb.Body, func(n ast.Node) bool {
		ret, ok := n.(*ast.ReturnStmt)
		if !ok {
			return true
		}
		for _, res := range ret.Results {
			cl, ok := ast.Unparen(res).(*ast.CompositeLit)
			if !ok {
				continue
			}
			t := info.TypeOf(cl)
			if t == nil {
				continue
			}
			if n, ok := t.(*types.Named); ok && p.InRepo(n.Obj()) {
				for _, fd := range p.methodsOf(t) {
					if !seen[fd] {
						seen[fd] = true
						if b := p.bodyOfDecl(fd); b != nil {
							out = append(out, b)
						}
					}
				}
			}
		}
		return true
	})
	return out
}

// reflectTypeVar evaluates `var X = reflect.TypeOf(e)[.Elem()]*` to the Go type it denotes.
func (p *Prog) reflectTypeExpr(pkg *packages.Package, e ast.Expr, depth int) types.Type {
	if depth > 4 {
		return nil
	}
	info := pkg.TypesInfo
	switch x := ast.Unparen(e).(type) {
	case *ast.Ident, *ast.SelectorExpr:
		v, ok := objOf(info, x).(*types.Var)
		if !ok || !p.InRepo(v) || v.Parent() != v.Pkg().Scope() {
			return nil
		}
		// find the initialiser
		for _, dp := range p.Pkgs {
			if dp.Types != v.Pkg() {
				continue
			}
			for _, f := range dp.Syntax {
				for _, d := range f.Decls {
					gd, ok := d.(*ast.GenDecl)
					if !ok {
						continue
					}
					for _, s := range gd.Specs {
						vs, ok := s.(*ast.ValueSpec)
						if !ok {
							continue
						}
						for i, n := range vs.Names {
							if dp.TypesInfo.Defs[n] == v && i < len(vs.Values) {
								return p.reflectTypeExpr(dp, vs.Values[i], depth+1)
							}
						}
					}
				}
			}
		}
	case *ast.CallExpr:
		if f := Callee(info, x); f != nil {
			if FullName(f) == "reflect.TypeOf" && len(x.Args) == 1 {
				return info.TypeOf(x.Args[0])
			}
		}
		// X.Elem()
		if se, ok := x.Fun.(*ast.SelectorExpr); ok && se.Sel.Name == "Elem" && len(x.Args) == 0 {
			if t := p.reflectTypeExpr(pkg, se.X, depth+1); t != nil {
				if pt, ok := t.Underlying().(*types.Pointer); ok {
					return pt.Elem()
				}
			}
		}
	}
	return nil
}

func kindKeys(info *types.Info, key ast.Expr) []string {
	if k := kindConst(info, key); k != "" {
		return []string{k}
	}
	return nil
}

// t1Slots enumerates the slots of package io (and any other repo package that has them).
func (p *Prog) t1Slots() (slots []*t1slot, unclassified []token.Pos) {
	for _, pkg := range p.Pkgs {
		info := pkg.TypesInfo
		for _, file := range pkg.Syntax {
			parents := parentMap(file)
			enclosing := func(n ast.Node) string {
				for x := n; x != nil; x = parents[x] {
					if fd, ok := x.(*ast.FuncDecl); ok {
						return p.DeclName(fd)
					}
				}
				return "<pkg>"
			}
			ast.Inspect(file, func(n ast.Node) bool {
				switch x := n.(type) {
				case *ast.CompositeLit:
					// kind-keyed table of function values
					var kv []*ast.KeyValueExpr
					for _, el := range x.Elts {
						if e, ok := el.(*ast.KeyValueExpr); ok {
							kv = append(kv, e)
						}
					}
					if len(kv) == 0 {
						return true
					}
					name := "<anon>"
					switch par := parents[x].(type) {
					case *ast.AssignStmt:
						for i, rhs := range par.Rhs {
							if rhs == x && i < len(par.Lhs) {
								name = types.ExprString(par.Lhs[i])
							}
						}
					case *ast.ValueSpec:
						for i, rhs := range par.Values {
							if rhs == x && i < len(par.Names) {
								name = par.Names[i].Name
							}
						}
					}
					for _, e := range kv {
						val := ast.Unparen(e.Value)
						if id, ok := val.(*ast.Ident); ok && id.Name == "nil" {
							continue
						}
						vt := info.TypeOf(val)
						if vt == nil {
							continue
						}
						if _, isFunc := vt.Underlying().(*types.Signature); !isFunc {
							continue
						}
						if ks := kindKeys(info, e.Key); ks != nil {
							s := &t1slot{table: name, kinds: ks, pos: e.Pos()}
							s.bodies = p.boundBodies(pkg, val, name+"["+ks[0]+"]", map[ast.Node]bool{})
							slots = append(slots, s)
							continue
						}
						// composite key {reflect.A, reflect.B}: converter map (source, destination)
						if kc, ok := ast.Unparen(e.Key).(*ast.CompositeLit); ok && len(kc.Elts) == 2 {
							a, b := kindConst(info, kc.Elts[0]), kindConst(info, kc.Elts[1])
							if a != "" && b != "" {
								s := &t1slot{table: name, kinds: []string{b}, pos: e.Pos(),
									kindsByParam: map[int][]string{1: {a}, 2: {b}}}
								s.bodies = p.boundBodies(pkg, val, name+"["+a+"->"+b+"]", map[ast.Node]bool{})
								slots = append(slots, s)
								continue
							}
						}
					}
				case *ast.SwitchStmt:
					if x.Tag == nil {
						return true
					}
					tt := info.TypeOf(x.Tag)
					if tt == nil || !isReflectKind(tt) {
						return true
					}
					fn := enclosing(x)
					for _, st := range x.Body.List {
						cc := st.(*ast.CaseClause)
						var ks []string
						for _, e := range cc.List {
							if k := kindConst(info, e); k != "" {
								ks = append(ks, k)
							}
						}
						if len(ks) == 0 {
							continue
						}
						s := &t1slot{table: "switch@" + fn, kinds: ks, pos: cc.Pos()}
						// the clause body itself (casts of the enclosing function's parameters)
						var encl *funcBody
						for y := ast.Node(x); y != nil; y = parents[y] {
							if fd, ok := y.(*ast.FuncDecl); ok {
								encl = p.bodyOfDecl(fd)
								break
							}
							if fl, ok := y.(*ast.FuncLit); ok {
								encl = p.bodyOfLit(pkg, fl, fn+"$lit")
								break
							}
						}
						if encl != nil {
							b := *encl
							b.Body = &ast.BlockStmt{List: cc.Body, Lbrace: cc.Pos(), Rbrace: cc.End()}
							s.bodies = append(s.bodies, &b)
						}
						// function values selected in the clause (handler = int8Encode)
						seen := map[ast.Node]bool{}
						for _, bs := range cc.Body {
							ast.Inspect(bs, func(m ast.Node) bool {
								switch y := m.(type) {
								case *ast.CallExpr:
									// do not treat the called function itself as a selected value
									for _, a := range y.Args {
										ast.Inspect(a, func(ast.Node) bool { return true })
									}
									if id, ok := ast.Unparen(y.Fun).(*ast.Ident); ok {
										seen[id] = true
									}
									if se, ok := ast.Unparen(y.Fun).(*ast.SelectorExpr); ok {
										seen[se] = true
										seen[se.Sel] = true
									}
								case *ast.Ident:
									if seen[y] {
										return true
									}
									if f, ok := info.Uses[y].(*types.Func); ok && p.InRepo(f) {
										s.bodies = append(s.bodies, p.boundBodies(pkg, y, "", map[ast.Node]bool{})...)
									}
								}
								return true
							})
						}
						slots = append(slots, s)
					}
				case *ast.CallExpr:
					f := Callee(info, x)
					if f == nil || !p.InRepo(f) {
						return true
					}
					switch p.FuncName(f) {
					case "io.registerValueDecoder":
						if len(x.Args) == 2 {
							if t := p.reflectTypeExpr(pkg, x.Args[0], 0); t != nil {
								s := &t1slot{table: "registerValueDecoder(" + types.ExprString(x.Args[0]) + ")", exact: t, pos: x.Pos()}
								s.bodies = p.boundBodies(pkg, x.Args[1], "", map[ast.Node]bool{})
								slots = append(slots, s)
							}
						}
					case "io.RegisterValueEncoder":
						if len(x.Args) == 2 {
							if t := info.TypeOf(x.Args[0]); t != nil {
								if pt, ok := t.Underlying().(*types.Pointer); ok {
									s := &t1slot{table: "RegisterValueEncoder(" + types.ExprString(x.Args[0]) + ")", exact: pt.Elem(), pos: x.Pos()}
									s.bodies = p.boundBodies(pkg, x.Args[1], "", map[ast.Node]bool{})
									slots = append(slots, s)
								}
							}
						}
					case "io.RegisterConverter":
						if len(x.Args) == 3 {
							src := p.reflectTypeExpr(pkg, x.Args[0], 0)
							dst := p.reflectTypeExpr(pkg, x.Args[1], 0)
							if src != nil && dst != nil {
								s := &t1slot{table: "RegisterConverter(" + types.ExprString(x.Args[0]) + "," + types.ExprString(x.Args[1]) + ")", pos: x.Pos(),
									exact: dst, exactByParam: map[int]types.Type{1: src, 2: dst}}
								s.bodies = p.boundBodies(pkg, x.Args[2], "", map[ast.Node]bool{})
								slots = append(slots, s)
							}
						}
					}
				}
				return true
			})
		}
	}
	return
}

func ruleT1(r *Run) {
	p := r.P
	slots, _ := p.t1Slots()
	// group by table for the majority depth
	type inst struct {
		s  *t1slot
		c  castSite
		d  int
		bt types.Type
	}
	byTable := map[string][]inst{}
	var tables []string
	for _, s := range slots {
		for _, fb := range s.bodies {
			for _, c := range collectCasts(fb) {
				if c.param < 0 {
					continue
				}
				bt, n := deref(c.target)
				// casts to *unsafe.Pointer are kind-agnostic word accesses (nil tests, pointer slots)
				if isUnsafePointer(bt) {
					continue
				}
				if _, ok := byTable[s.table]; !ok {
					tables = append(tables, s.table)
				}
				byTable[s.table] = append(byTable[s.table], inst{s, c, n - 1, bt})
			}
		}
	}
	sort.Strings(tables)
	for _, tb := range tables {
		insts := byTable[tb]
		// majority depth (Engler-style deviance inside one table)
		cnt := map[int]int{}
		for _, in := range insts {
			if in.s.exact == nil {
				cnt[in.d]++
			}
		}
		maj, best := 0, -1
		for d, c := range cnt {
			if c > best || (c == best && d < maj) {
				maj, best = d, c
			}
		}
		for _, in := range insts {
			s, c := in.s, in.c
			slotName := strings.Join(s.kinds, ",")
			if s.exact != nil {
				slotName = typeKey(s.exact)
			}
			key := fmt.Sprintf("%s[%s] %s cast %s", tb, slotName, c.fn, typeKey(c.target))
			if s.exact != nil || s.exactByParam != nil {
				want := s.exact
				if s.exactByParam != nil {
					if w, ok := s.exactByParam[c.param]; ok {
						want = w
					}
				}
				// cast must be *want (identical, or identical underlying e.g. [16]byte for uuid.UUID)
				pt, ok := c.target.Underlying().(*types.Pointer)
				if ok && (types.Identical(pt.Elem(), want) || types.Identical(pt.Elem().Underlying(), want.Underlying())) {
					r.Ok(key, c.pos, "cast matches the registered type")
				} else {
					r.Viol(key, c.pos, fmt.Sprintf("code registered for type %s accesses its operand through %s (expected *%s)", typeKey(want), typeKey(c.target), typeKey(want)))
				}
				continue
			}
			kinds := s.kinds
			if s.kindsByParam != nil {
				if k, ok := s.kindsByParam[c.param]; ok {
					kinds = k
				}
			}
			if in.d != maj && s.kindsByParam == nil {
				r.Viol(key, c.pos, fmt.Sprintf("indirection depth %d differs from the depth %d used by the other %d entries of %s: the slot's memory is a %s%s, not a %s", in.d, maj, best, tb, strings.Repeat("*", maj+1), strings.ToLower(kinds[0]), typeKey(c.target)))
				continue
			}
			bad := ""
			for _, k := range kinds {
				if ok, why := kindFits(k, in.bt, p.Sizes); !ok {
					bad = fmt.Sprintf("slot kind %s: %s", k, why)
					break
				}
			}
			if bad != "" {
				r.Viol(key, c.pos, bad)
			} else {
				r.Ok(key, c.pos, "kind, size and depth agree")
			}
		}
	}
	// bit sizes of ParseInt/ParseUint wrappers
	sti := p.LookupFunc("io", "Decoder.stringToInt64")
	stu := p.LookupFunc("io", "Decoder.stringToUint64")
	if sti == nil || stu == nil {
		r.Undec("bitsize anchors", 0, "io.Decoder.stringToInt64/stringToUint64 not found")
		return
	}
	p.EachFunc(func(pkg *packages.Package, fd *ast.FuncDecl) {
		info := pkg.TypesInfo
		parents := parentMap(fd)
		n := 0
		seenDst := map[string]int{}
		ast.Inspect(fd.Body, func(nd ast.Node) bool {
			call, ok := nd.(*ast.CallExpr)
			if !ok {
				return true
			}
			f := Callee(info, call)
			if f != sti && f != stu || len(call.Args) != 2 {
				return true
			}
			bits, ok := intConst(info, call.Args[1])
			// destination type: enclosing conversion, else the call's own result type
			var dst types.Type = info.TypeOf(call)
			if pc, ok := parents[call].(*ast.CallExpr); ok {
				if t, ok := isConversion(info, pc); ok {
					dst = t
				}
			}
			seenDst[typeKey(dst)]++
			n = seenDst[typeKey(dst)]
			key := fmt.Sprintf("bitsize %s %s<-%s #%d", p.DeclName(fd), typeKey(dst), f.Name(), n)
			if !ok {
				r.Ok(key, call.Pos(), "non-constant bit size (not an instance)")
				return true
			}
			b, ok := dst.Underlying().(*types.Basic)
			if !ok {
				r.Undec(key, call.Pos(), "destination of parsed integer is not basic: "+typeKey(dst))
				return true
			}
			want := p.Sizes.Sizeof(b) * 8
			wordSized := b.Kind() == types.Int || b.Kind() == types.Uint || b.Kind() == types.Uintptr
			if bits == want || (wordSized && bits == 0) {
				r.Ok(key, call.Pos(), fmt.Sprintf("bitSize %d fits %s", bits, typeKey(dst)))
			} else {
				r.Viol(key, call.Pos(), fmt.Sprintf("string parsed with bitSize %d but stored into %s (%d bits): out-of-range digit strings are silently truncated or valid ones rejected", bits, typeKey(dst), want))
			}
			return true
		})
	})
}

// ---------------------------------------------------------------------------------------
// T2

func cellOfType(t types.Type) (string, bool) {
	bt, n := deref(t)
	if n < 1 {
		return "", false
	}
	return fmt.Sprintf("%s@%d", typeKey(bt), n-1), true
}

func ruleT2(r *Run) {
	p := r.P
	type route struct {
		via    string
		callee *types.Func
		pos    token.Pos
	}
	cells := map[string][]route{}
	slots, _ := p.t1Slots()
	// depth per table = majority, as in T1
	depthOf := map[string]int{}
	{
		cnt := map[string]map[int]int{}
		for _, s := range slots {
			if s.exact != nil || s.kindsByParam != nil {
				continue
			}
			for _, fb := range s.bodies {
				for _, c := range collectCasts(fb) {
					bt, n := deref(c.target)
					if c.param < 0 || isUnsafePointer(bt) {
						continue
					}
					if cnt[s.table] == nil {
						cnt[s.table] = map[int]int{}
					}
					cnt[s.table][n-1]++
				}
			}
		}
		for tb, m := range cnt {
			best, maj := -1, 0
			for d, c := range m {
				if c > best || (c == best && d < maj) {
					best, maj = c, d
				}
			}
			depthOf[tb] = maj
		}
	}
	isDecodeRoutine := func(f *types.Func) bool {
		if f == nil || !p.InRepo(f) {
			return false
		}
		sig := f.Type().(*types.Signature)
		return sig.Recv() != nil && isNamed(sig.Recv().Type(), p.ModPath+"/io", "Decoder") && strings.HasPrefix(f.Name(), "decode")
	}
	for _, s := range slots {
		if s.kindsByParam != nil || s.exactByParam != nil {
			continue
		}
		if strings.HasPrefix(s.table, "switch@") || strings.HasPrefix(s.table, "RegisterValueEncoder") {
			continue // encode side / local switches: no terminal decode routine
		}
		for _, fb := range s.bodies {
			for _, c := range collectCasts(fb) {
				if c.param < 0 || !isDecodeRoutine(c.callee) {
					continue
				}
				if s.exact != nil {
					cell, _ := cellOfType(types.NewPointer(s.exact))
					// *big.Int registered => destination is **big.Int => big.Int@1
					cells[cell] = append(cells[cell], route{s.table, c.callee, c.pos})
					continue
				}
				for _, k := range s.kinds {
					name := strings.ToLower(k)
					if k == "Interface" {
						name = "interface{}"
					}
					cell := fmt.Sprintf("%s@%d", name, depthOf[s.table])
					cells[cell] = append(cells[cell], route{s.table + "[" + k + "]", c.callee, c.pos})
				}
			}
		}
	}
	// fast type switches of *Decoder
	p.EachFunc(func(pkg *packages.Package, fd *ast.FuncDecl) {
		if pkg != p.Pkg("io") {
			return
		}
		info := pkg.TypesInfo
		ast.Inspect(fd.Body, func(n ast.Node) bool {
			ts, ok := n.(*ast.TypeSwitchStmt)
			if !ok {
				return true
			}
			for _, st := range ts.Body.List {
				cc := st.(*ast.CaseClause)
				if len(cc.List) != 1 {
					continue
				}
				ct := info.TypeOf(cc.List[0])
				if ct == nil {
					continue
				}
				cell, ok := cellOfType(ct)
				if !ok {
					continue
				}
				// implicit object of the clause
				var cv types.Object = info.Implicits[cc]
				for _, bs := range cc.Body {
					ast.Inspect(bs, func(m ast.Node) bool {
						call, ok := m.(*ast.CallExpr)
						if !ok {
							return true
						}
						f := Callee(info, call)
						if !isDecodeRoutine(f) {
							return true
						}
						for _, a := range call.Args {
							if id, ok := ast.Unparen(a).(*ast.Ident); ok && cv != nil && info.Uses[id] == cv {
								cells[cell] = append(cells[cell], route{"typeswitch@" + p.DeclName(fd), f, call.Pos()})
							}
						}
						return true
					})
				}
			}
			return true
		})
	})
	var names []string
	for c := range cells {
		names = append(names, c)
	}
	sort.Strings(names)
	for _, c := range names {
		rs := cells[c]
		set := map[*types.Func][]string{}
		for _, x := range rs {
			set[x.callee] = append(set[x.callee], x.via)
		}
		key := "cell " + c
		if len(set) == 1 {
			r.Ok(key, rs[0].pos, fmt.Sprintf("%d routes reach %s", len(rs), p.FuncName(rs[0].callee)))
			continue
		}
		// the deviant route is the one in the minority
		var desc []string
		minority := rs[0]
		for f, via := range set {
			desc = append(desc, fmt.Sprintf("%s via %s", p.FuncName(f), strings.Join(via, ",")))
			if len(via) < len(set[minority.callee]) {
				for _, x := range rs {
					if x.callee == f {
						minority = x
					}
				}
			}
		}
		sort.Strings(desc)
		r.Viol(key, minority.pos, "dispatch routes for this destination disagree on the decode routine: "+strings.Join(desc, "; "))
	}
}
